#!/usr/bin/env python3
"""Confirm a seeded change produced by an independent sub-agent and run the checks against it.

  seed_eval.py <dir-with-patch.diff+demo.c[+meta.txt]> <property> <name> [--cross] [--flags "-DCAT_UNSOLICITED_CMD_BUFFER_SIZE=2 -lpthread"]

Steps (all on a scratch copy of /repo outside /repo and /verif, removed afterwards):
  1. the patch applies to the current /repo tree, compiles with the project flags, the 30 baseline tests pass;
  2. the demonstration exits non-zero with the change and 0 without it;
  3. the quick check of the property (and with --cross every other check) is run with VERIF_REPO pointing at
     the patched copy; VIOLATION lines are recorded.
The change is kept as /verif/seeded/<name>/ (patch.diff, demo.c, meta.json) only if 1 and 2 hold.
"""
import json, os, shutil, subprocess, sys, tempfile, time
ROOT = os.path.dirname(os.path.abspath(__file__))
sys.path.insert(0, ROOT)
import mutants_runner as mr

def main():
    a = sys.argv[1:]
    src, pid, name = a[0], a[1], a[2]
    cross = '--cross' in a
    flags = a[a.index('--flags') + 1].split() if '--flags' in a else []
    mt = os.path.join(src, 'meta.txt')
    if not os.path.exists(mt): mt = os.path.join(src, 'agent_notes.txt')
    if not flags and os.path.exists(mt):
        first = open(mt, errors='replace').readline().strip()
        if first.upper().startswith('FLAGS:'): flags = first.split(':', 1)[1].split()
    only = a[a.index('--checks') + 1].split(',') if '--checks' in a else None
    copy = tempfile.mkdtemp(prefix='verif_seed_')
    evdir = os.path.join(ROOT, 'evidence'); keep = tempfile.mkdtemp(prefix='verif_ev_keep_')
    for f in os.listdir(evdir):
        if f.endswith('.json'): shutil.copy(os.path.join(evdir, f), keep)
    res = {'name': name, 'property': pid, 'source': 'independent sub-agent working from the property text only'}
    try:
        subprocess.check_call(['git', '-C', '/repo', 'worktree', 'add', '-q', '--detach', copy + '/wt', 'HEAD'])
        wt = copy + '/wt'
        r = subprocess.run(['git', '-C', wt, 'apply', os.path.abspath(os.path.join(src, 'patch.diff'))], capture_output=True, text=True)
        if r.returncode: res['status'] = 'patch does not apply: ' + r.stderr[:300]; print(json.dumps(res)); return
        skip = '--skip-baseline' in a          # re-evaluation of a change that has been confirmed before (seed_eval_all.sh): build, tests and demonstration are not repeated
        old_meta = {}
        if skip:
            try: old_meta = json.load(open(os.path.join(src, 'meta.json')))
            except Exception: skip = False
        ok, why = (True, old_meta.get('baseline', '')) if skip else mr.baseline_ok(wt)
        res['baseline'] = why
        if not ok: res['status'] = 'rejected: ' + why; print(json.dumps(res)); return
        demo = os.path.join(src, 'demo.c')
        def run_demo(srcdir):
            exe = os.path.join(copy, 'demo')
            c = subprocess.run(['gcc', '-O1', '-I' + srcdir, demo, os.path.join(srcdir, 'cat.c'), '-o', exe] + flags + ['-lpthread'], capture_output=True, text=True)
            if c.returncode: return None, c.stderr[-400:]
            try:
                d = subprocess.run([exe], capture_output=True, text=True, timeout=120, errors='replace')
                return d.returncode, (d.stdout + d.stderr)[-300:]
            except subprocess.TimeoutExpired:
                return 124, 'timeout'
        if skip and old_meta.get('demo'):
            res['demo'] = old_meta['demo']; rc_bad, rc_ok = res['demo'].get('with_change_rc'), res['demo'].get('without_change_rc')
        else:
            rc_bad, out_bad = run_demo(os.path.join(wt, 'src'))
            rc_ok, out_ok = run_demo('/repo/src')
            res['demo'] = {'with_change_rc': rc_bad, 'without_change_rc': rc_ok, 'with_change_tail': out_bad}
        if rc_ok != 0 or rc_bad in (0, None):
            res['status'] = 'rejected: demonstration does not discriminate (with change rc=%s, without rc=%s)' % (rc_bad, rc_ok); print(json.dumps(res)); return
        import run as runpy
        targets = [pid] + ([p for p in sorted(runpy.CHECKS) if p != pid] if cross else [])
        if only: targets = only
        res['checks'] = {}
        for t in targets:
            res['checks'][t] = mr.run_check(t, wt)
        own = res['checks'].get(pid)
        res['status'] = 'CAUGHT' if own and own['violation'] else 'MISSED'
        res['caught_by'] = sorted(t for t, v in res['checks'].items() if v['violation'])
        out = os.path.join(ROOT, 'seeded', name); os.makedirs(out, exist_ok=True)
        if os.path.abspath(src) != os.path.abspath(out):
            shutil.copy(os.path.join(src, 'patch.diff'), out); shutil.copy(demo, out)
            if os.path.exists(os.path.join(src, 'meta.txt')): shutil.copy(os.path.join(src, 'meta.txt'), os.path.join(out, 'agent_notes.txt'))
        old = json.load(open(os.path.join(out, 'meta.json'))) if os.path.exists(os.path.join(out, 'meta.json')) else {}
        meta = {'breaks_property': pid, 'name': name, 'source': res['source'], 'baseline': why, 'demo': res['demo'], 'demo_flags': flags,
                'what_it_needs_to_manifest': '(see agent_notes.txt)', 'checks_run': {t: {'violation': v['violation'], 'keys': v['keys'], 'wall_s': v['wall_s']} for t, v in res['checks'].items()},
                'caught_by': res['caught_by'], 'status': res['status'],
                'what_was_run': 'scratch git worktree of /repo HEAD + git apply patch.diff; cmake/ninja build with project flags; ctest 30/30; demo.c compiled against patched and unpatched src/cat.c; '
                                'VERIF_REPO=<worktree> python3 run.py check <ID> --tier quick for each listed check; worktree removed afterwards'}
        for k in ('history', 'assessment'):
            if k in old: meta[k] = old[k]
        if old.get('status', '').startswith(('NOT DETECTED', 'CAUGHT BY SIBLING')) and meta['status'] == 'MISSED': meta['status'] = old['status']
        json.dump(meta, open(os.path.join(out, 'meta.json'), 'w'), indent=1)
        print(json.dumps({k: res[k] for k in ('name', 'property', 'status', 'caught_by', 'demo')}))
        print('  ', {t: (v['violation'], v['keys'][:3]) for t, v in res['checks'].items() if v['violation'] or t == pid})
    finally:
        subprocess.run(['git', '-C', '/repo', 'worktree', 'remove', '--force', copy + '/wt'], capture_output=True)
        shutil.rmtree(copy, ignore_errors=True)
        for f in os.listdir(keep): shutil.copy(os.path.join(keep, f), evdir)
        shutil.rmtree(keep, ignore_errors=True)
        rd = os.path.join(evdir, 'replay')
        shutil.rmtree(rd, ignore_errors=True)

if __name__ == '__main__':
    main()
