/* C14 — HOLD suspends the command until released, then answers exactly once.
 * Step monitors in engine.c (no read / no result code while held, cat_is_hold tracks the suspension, the
 * result code matches a requested status, spurious releases are refused and change nothing) plus a
 * deterministic sweep for "events keep being delivered while held" as bounded progress. */
#include "engine.h"

const char *CHK_RULE = "one case = one history with hold-heavy handlers (sweep: handler kind x emissions before HOLD x release path x status (0, -1 and other non-zero values) x back-pressure, with an event "
                       "triggered during the hold; cat_init on an object that is on hold; random: generated table/lines, releases by API and by event handlers at random points); non-trivial = at least one hold was "
                       "entered; distinct by (holds entered, holds with input queued, release paths used, table size, input bytes, schedule kind)";
static char mode[120];
void chk_describe(FILE *f) { fprintf(f, "%s\n", mode); eng_describe(f); }

/* ---- sweep: event delivery during a hold ---- */
static int sw_kind, sw_pre, sw_path, sw_status; static int sw_calls; static bool sw_event_release;
static cat_return_state sw_policy(struct hcall *h)
{
        if (h->fsm == FSM_U) return (sw_event_release && HOLD_PHASE == 1) ? (sw_status ? CAT_RETURN_STATE_HOLD_EXIT_ERROR : CAT_RETURN_STATE_HOLD_EXIT_OK) : CAT_RETURN_STATE_DATA_OK;
        if (h->ci != 0) return CAT_RETURN_STATE_OK;
        int k = sw_calls++;
        bool rt = h->kind == K_READ || h->kind == K_TEST;
        if (rt && k < sw_pre) return CAT_RETURN_STATE_DATA_NEXT;
        if (!rt && k < sw_pre) return CAT_RETURN_STATE_NEXT;
        if (k == sw_pre) return CAT_RETURN_STATE_HOLD;
        return CAT_RETURN_STATE_OK;
}
static void (*eng_unit)(bool, bool, const char *, size_t, bool, bool); static char seen[8][4]; static int nseen;
static void sw_on_unit(bool isA, bool raw, const char *text, size_t len, bool a, bool b) { if (!isA && nseen < 8) { snprintf(seen[nseen], sizeof seen[0], "%.2s", text); nseen++; } if (eng_unit) eng_unit(isA, raw, text, len, a, b); }
#define N_SWEEP_A (4 * 4 * 2 * 4 * 4)
#define N_SWEEP_B (4 * 2 * 2 * 2)
#define N_SWEEP (N_SWEEP_A + N_SWEEP_B)
static const int API_STATUS[4] = { 0, -1, 1, 2 };      /* CAT_STATUS_OK, _ERROR and two other non-zero values (they read BUSY and HOLD): "0 - OK, else ERROR" */
static void sweep_case(long item)
{
        sw_kind = (int)(item % 4); item /= 4; sw_pre = (int)(item % 4); item /= 4; sw_path = (int)(item % 2); item /= 2; int st4 = (int)(item % 4); sw_status = st4 != 0; item /= 4;
        int bp = (int)item;      /* 0 eager, 1 refuse every 2nd write, 2 long refusal run at hold entry, 3 reads sparse */
        snprintf(mode, sizeof mode, "sweep: hold entered from handler kind %d after %d emissions, release via %s with status %d (%s), back-pressure mode %d", sw_kind, sw_pre, sw_path ? "event handler" : "cat_hold_exit", sw_path ? -sw_status : API_STATUS[st4], sw_status ? "ERROR" : "OK", bp);
        w_begin();
        struct cat_command *arr = w_group(3, false);
        arr[0].name = xstr("+H"); arr[0].run = h_run; arr[0].read = h_read; arr[0].write = h_write; arr[0].test = h_test;
        arr[1].name = xstr("+E"); { struct cat_variable *v = w_vars(&arr[1], 1); v->type = CAT_VAR_UINT_DEC; v->name = "X"; uint8_t *d = w_vdata(v, 1); *d = 5; }
        arr[2].name = xstr("+R"); arr[2].read = h_read; arr[2].test = h_test;
        w_buffers(96, (item & 1) != 0, 48);
        w_init(0);
        static const char *forms[4] = { "AT+H\n", "AT+H?\n", "AT+H=1\n", "AT+H=?\n" };
        in_reset(); in_puts(forms[sw_kind]); if ((sw_kind + sw_pre + st4 + bp) & 1) { INB[INLEN - 1] = '\r'; in_putc('\n'); }      /* half of the held lines end in CR LF */
        in_puts("AT+E?\r\n"); in_puts("AT+X\n");
        static uint8_t bits[4096];
        for (size_t i = 0; i < sizeof bits; i++) bits[i] = bp == 1 ? (uint8_t)(i & 1) : bp == 2 ? (uint8_t)(i < 40 || i > 90) : 1;
        if (bp == 1 || bp == 2) sch_bits(&WS, bits, sizeof bits); else sch_eager(&WS);
        if (bp == 3) sch_bern(&RS, 35, 99); else sch_eager(&RS);
        eng_monitors_install();
        ENG_POLICY_OVERRIDE = sw_policy; sw_calls = 0; sw_event_release = false;
        EP.p_handler_trigger = 0;
        /* run to the hold */
        long guard = 0;
        while (HOLD_PHASE != 1 && guard++ < 5000) { cat_status s = svc(); eng_after_service(s); if (case_failed()) goto out; }
        if (HOLD_PHASE != 1) { inconclusive("sweep never reached the hold"); goto out; }
        size_t inpos_at_hold = INPOS;
        /* an event triggered during the hold must be delivered within a bound while output is accepted */
        sch_eager(&WS);
        long u0 = PU.units;
        /* as many events as the queue takes (at most three), of two commands: all of them are delivered during the hold, each once, in the order they were accepted */
        static const int ev_ci[3] = { 1, 2, 1 }; static const cat_cmd_type ev_ty[3] = { CAT_CMD_TYPE_READ, CAT_CMD_TYPE_READ, CAT_CMD_TYPE_TEST };
        int nev = QCAP < 3 ? QCAP : 3;
        eng_unit = ON_UNIT; ON_UNIT = sw_on_unit; nseen = 0;
        for (int k = 0; k < nev; k++) eng_trigger(ev_ci[k], ev_ty[k]);
        long B = (32 + 4 * ((long)W.capU + 16)) * nev, used = 0;
        for (; used < B && PU.units < u0 + nev; used++) { cat_status s = svc(); eng_after_service(s); if (case_failed()) goto out; }
        ON_UNIT = eng_unit;
        CNTN("events_triggered_during_hold", nev);
        if (PU.units < u0 + nev) { viol("C14", "event-not-delivered-during-hold", "%d event(s) triggered during a hold, %ld emitted within %ld service calls", nev, PU.units - u0, B); goto out; }
        for (int k = 0; k < nev && k < nseen; k++) if (strncmp(seen[k], W.cmd[ev_ci[k]]->name, 2) != 0 && !(ev_ci[k] == 2 && seen[k][0] == '~')) {      /* the handler of "+R" may replace the text by a "~<n>" payload */ viol("C14", "event-not-delivered-during-hold", "event %d accepted during the hold was for \"%s\" but unit %d is \"%s...\"", k, W.cmd[ev_ci[k]]->name, k, seen[k]); goto out; }
        if (INPOS != inpos_at_hold) viol("C14", "read-during-hold", "input consumed during the hold");
        /* release */
        if (sw_path == 0) eng_hold_exit((cat_status)API_STATUS[st4]);
        else { sw_event_release = true; eng_trigger(2, (item & 1) ? CAT_CMD_TYPE_TEST : CAT_CMD_TYPE_READ); if (QCAP >= 2) eng_trigger(0, CAT_CMD_TYPE_READ); }      /* behind the releasing event an event of the held command itself is waiting */
        long codes0 = RESULT_CODES;
        if (run_quiet(eng_progress_bound()) < 0) { viol("C15", "no-quiescence", "no quiescence after the release"); goto out; }
        if (EV_WAITING != 0 || EV_INPROGRESS) { viol("C14", "event-not-delivered-during-hold", "%ld event(s) accepted while the command was held were never processed", EV_WAITING + (EV_INPROGRESS ? 1 : 0)); goto out; }
        /* run_quiet does not sample: re-check the end state with the monitors */
        eng_after_service(CAT_STATUS_BUSY);
        if (RESULT_CODES - codes0 != 3 && !case_failed())
                viol("C14", "lines-after-hold-not-answered", "after the release %ld result codes were emitted for the held command and the two queued lines (expected 3)", RESULT_CODES - codes0);
        { uint64_t h = hash_u64((uint64_t)(sw_kind * 256 + sw_pre * 64 + sw_path * 32 + st4 * 4 + bp), 77); nontrivial(h); }
out:
        ENG_POLICY_OVERRIDE = NULL;
}
/* ---- sweep: the application re-initialises a parser that is on hold: the new parser is not held and answers its lines ---- */
static void sweep_reinit(long item)
{
        sw_kind = (int)(item % 4); item /= 4; sw_pre = (int)(item % 2); item /= 2; bool with_event = item & 1; item /= 2; bool shared = item & 1;
        snprintf(mode, sizeof mode, "sweep: cat_init on an object that is on hold (handler kind %d after %d emissions%s)", sw_kind, sw_pre, with_event ? ", an event waiting" : "");
        w_begin();
        struct cat_command *arr = w_group(2, false);
        arr[0].name = xstr("+H"); arr[0].run = h_run; arr[0].read = h_read; arr[0].write = h_write; arr[0].test = h_test;
        arr[1].name = xstr("+E"); { struct cat_variable *v = w_vars(&arr[1], 1); v->type = CAT_VAR_UINT_DEC; v->name = "X"; uint8_t *d = w_vdata(v, 1); *d = 5; }
        w_buffers(96, shared, 48);
        w_init(0);
        static const char *forms[4] = { "AT+H\n", "AT+H?\n", "AT+H=1\n", "AT+H=?\n" };
        in_reset(); in_puts(forms[sw_kind]);
        sch_eager(&WS); sch_eager(&RS);
        eng_monitors_install();
        ENG_POLICY_OVERRIDE = sw_policy; sw_calls = 0; sw_event_release = false; sw_status = 0;
        EP.p_handler_trigger = 0;
        long guard = 0;
        while (HOLD_PHASE != 1 && guard++ < 5000) { cat_status s = svc(); eng_after_service(s); if (case_failed()) goto out; }
        if (HOLD_PHASE != 1) { inconclusive("sweep never reached the hold"); goto out; }
        if (with_event) eng_trigger(1, CAT_CMD_TYPE_READ);
        /* a new life for the same object */
        w_reinit(3);
        eng_monitors_install(); units_reset(); out_reset();
        ENG_POLICY_OVERRIDE = sw_policy; sw_calls = 100;      /* handlers answer OK from now on */
        in_reset(); in_puts("AT+E?\r\n"); in_puts("AT+H\n");
        if (cat_is_hold(W.at) != CAT_STATUS_OK) viol("C14", "hold-survives-reinit", "cat_is_hold reports a hold right after cat_init although no handler of the new parser has asked for one");
        eng_spurious_hold_exit();
        if (case_failed()) goto out;
        if (run_quiet(eng_progress_bound()) < 0) { viol("C14", "hold-survives-reinit", "the re-initialised parser does not serve its input (no quiescence)"); goto out; }
        eng_after_service(CAT_STATUS_BUSY);
        if (RESULT_CODES != 2 && !case_failed()) viol("C14", "hold-survives-reinit", "the re-initialised parser answered %ld of its 2 lines", RESULT_CODES);
        if (PU.units != 0) viol("C13", "event-survives-reinit", "an event accepted by the previous life of the object was delivered by the re-initialised parser");
        CNT("reinit_while_held_cases");
        nontrivial(hash_u64((uint64_t)(1000 + sw_kind * 8 + sw_pre * 4 + with_event * 2 + shared), 78));
out:
        ENG_POLICY_OVERRIDE = NULL;
}

struct case_budget chk_budget(const char *tier)
{
        struct case_budget b = { N_SWEEP, strcmp(tier, "thorough") == 0 ? 8000000 : 200000 };
        return b;
}
void chk_run_case(uint64_t seed, long c, bool is_sweep)
{
        (void)seed;
        eng_default_profile();
        if (is_sweep) { if (c < N_SWEEP_A) sweep_case(c); else sweep_reinit(c - N_SWEEP_A); return; }
        snprintf(mode, sizeof mode, "random hold-heavy history");
        EP.p_hold = 45 + rn(60); EP.p_event_step = 20 + rn(60); EP.p_handler_trigger = 15; EP.p_weird = 25; EP.p_garbage_line = 2; EP.p_long_line = 2; EP.p_varcb_fail = 1;
        eng_gen_table();
        /* make sure something can hold: give every enabled command some handlers */
        for (size_t i = 0; i < W.ncmds; i++) { struct cat_command *cm = W.cmd[i]; if (!cm->implicit_write && chance(70)) { cm->run = h_run; cm->read = h_read; cm->test = h_test; } if (chance(70)) cm->write = h_write; cm->only_test = cm->only_test && chance(30); }
        eng_gen_input(2 + rn(7));
        eng_random_schedules();
        long h0 = ctr_get("holds_entered"), hq0 = ctr_get("holds_with_input_queued"), ra0 = ctr_get("releases_by_api"), re0 = ctr_get("releases_by_event_handler");
        eng_run_history();
        long nh = ctr_get("holds_entered") - h0;
        if (nh > 0) {
                uint64_t h = hash_u64((uint64_t)nh, 3); h = hash_u64((uint64_t)(ctr_get("holds_with_input_queued") - hq0), h);
                h = hash_u64((uint64_t)((ctr_get("releases_by_api") - ra0 ? 1 : 0) + (ctr_get("releases_by_event_handler") - re0 ? 2 : 0)), h);
                h = hash_u64(W.ncmds, h); h = hash_bytes(INB, INLEN, h); h = hash_u64((uint64_t)(RS.mode * 2 + WS.mode), h);
                nontrivial(h);
                if (sample_wanted()) { char b[300]; fmt_bytes(b, sizeof b, INB, INLEN > 100 ? 100 : INLEN); sample_printf("%zu commands, input \"%s\": %ld holds entered (%ld with input queued), released by api %lld / by event handler %lld", W.ncmds, b, nh, (long)(ctr_get("holds_with_input_queued") - hq0), ctr_get("releases_by_api") - ra0, ctr_get("releases_by_event_handler") - re0); }
        }
}
int main(int argc, char **argv) { MY_PROP = "C14"; PROG_NAME = "chk_C14"; return verif_main(argc, argv); }
