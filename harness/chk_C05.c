/* C05 — hex-buffer and string arguments decode exactly and never exceed data_size.
 * Oracle: independent byte-string decoder in refmodel.c; canaries (plain build) behind every variable. */
#include "argcheck.h"

const char *CHK_RULE = "one case = one WRITE line for a command with 1..4 variables (sweep: buffer/string x data_size 1..64 x argument position x decoded length "
                       "{0,1,size-2..size+2} reached with plain characters / last character escaped / every character escaped, odd nibbles, mixed case, missing quote, junk "
                       "after the quote; random: arbitrary bytes, commas, quotes, backslashes, bytes >= 0x80); every judged line is non-trivial; distinct by (types, sizes, "
                       "argument text)";
void chk_describe(FILE *f) { args_describe(f); }

static size_t valid_arg(char *o, int type, size_t size)
{
        switch (type) {
        case CAT_VAR_INT_DEC: return (size_t)sprintf(o, "%d", (int)rn(100) - 50);
        case CAT_VAR_UINT_DEC: return (size_t)sprintf(o, "%u", rn(200));
        case CAT_VAR_NUM_HEX: return (size_t)sprintf(o, "0x%X", rn(200));
        case CAT_VAR_BUF_HEX: { size_t nb = 1 + rn((unsigned)size); for (size_t i = 0; i < nb * 2; i++) o[i] = "0123456789abcdefABCDEF"[rn(22)]; o[nb * 2] = 0; return nb * 2; }
        default: {      /* a valid string of L decoded characters: letters, commas, and the three escapes (also as the last character: "...\\\\" ends in an escaped backslash right before the closing quote) */
                size_t L = rn((unsigned)size), k = 0; o[k++] = '"';
                for (size_t i = 0; i < L; i++) { unsigned r = rn(12); if (r == 0 || (i + 1 == L && r < 4)) { o[k++] = '\\'; o[k++] = "\\\"n"[rn(3)]; } else if (r == 1) o[k++] = ','; else o[k++] = (char)('a' + rn(26)); }
                o[k++] = '"'; o[k] = 0; return k; }
        }
}
/* string text with decoded length L; mode 0 plain, 1 last char escaped, 2 all escaped, 3 random mix; defect: 0 none,1 no closing quote,2 junk after,3 bad escape,4 no opening quote,5 dangling backslash */
static size_t string_arg(uint8_t *o, size_t L, int mode, int defect)
{
        size_t k = 0;
        if (defect != 4) o[k++] = '"';
        for (size_t i = 0; i < L; i++) {
                bool esc = mode == 2 || (mode == 1 && i + 1 == L) || (mode == 3 && chance(30));
                if (esc) { o[k++] = '\\'; o[k++] = (uint8_t)"\\\"n"[rn(3)]; }
                else { uint8_t ch; do { unsigned r = rn(8); ch = r == 0 ? ',' : r == 1 ? (uint8_t)(0x80 + rn(128)) : r == 2 ? '?' : r == 3 ? ' ' : (uint8_t)(1 + rn(254)); } while (ch == '"' || ch == '\\' || ch == '\n' || ch == '\r' || ch == 0); o[k++] = ch; }
        }
        if (defect == 3) { o[k++] = '\\'; o[k++] = (uint8_t)"qx0r"[rn(4)]; }
        if (defect == 5) o[k++] = '\\';
        if (defect != 1 && defect != 5) o[k++] = '"';
        if (defect == 2) o[k++] = (uint8_t)"x\" 0"[rn(4)];
        return k;
}
/* hex text of nb bytes; defect 1 odd nibble, 2 non-hex char, 3 prefixed 0x, 4 space inside */
static size_t hex_arg(uint8_t *o, size_t nb, int defect)
{
        size_t k = 0;
        if (defect == 3) { o[k++] = '0'; o[k++] = 'x'; }
        for (size_t i = 0; i < nb * 2; i++) o[k++] = (uint8_t)"0123456789abcdefABCDEF"[rn(22)];
        if (defect == 1) o[k++] = (uint8_t)"0123456789abcdefABCDEF"[rn(22)];
        if (defect == 2 && k) o[rn((unsigned)k)] = (uint8_t)"gG-x,. "[rn(7)];
        if (defect == 2 && !k) o[k++] = 'g';
        if (defect == 4 && k > 1) { memmove(o + 2, o + 1, k - 1); o[1] = ' '; k++; }
        return k;
}
static const int LEN_DELTA[7] = { -1000, -999, -2, -1, 0, 1, 2 };        /* -1000 -> 0, -999 -> 1, else size+delta */

/* sweep: kind(2) x size(64) x pos(4) x len(7) x variant(8) */
#define N_SWEEP (2L * 64 * 4 * 7 * 8)
static void sweep_case(long item)
{
        int variant = (int)(item % 8); item /= 8;
        int li = (int)(item % 7); item /= 7;
        int pos = (int)(item % 4); item /= 4;
        size_t size = 1 + (size_t)(item % 64); item /= 64;
        bool is_str = item != 0;
        int nv = pos + 1 + (int)rn(4 - (unsigned)pos);
        for (int j = 0; j < nv; j++) {
                AF[j].type = (j == pos) ? (is_str ? CAT_VAR_BUF_STRING : CAT_VAR_BUF_HEX) : (int)rn(5);
                AF[j].access = chance(80) ? CAT_VAR_ACCESS_READ_WRITE : CAT_VAR_ACCESS_WRITE_ONLY; AF[j].no_callback = chance(25);
                AF[j].size = (j == pos) ? size : (AF[j].type <= CAT_VAR_NUM_HEX ? (size_t[]){ 1, 2, 4 }[rn(3)] : 1 + rn(8));
        }
        long L = LEN_DELTA[li] == -1000 ? 0 : LEN_DELTA[li] == -999 ? 1 : (long)size + LEN_DELTA[li];
        if (L < 0) L = 0;
        static uint8_t args[1500]; size_t n = 0; char f[300];
        int nargs = pos + 1 + (chance(60) ? (int)rn((unsigned)(nv - pos)) : 0);
        for (int a = 0; a < nargs; a++) {
                if (a) args[n++] = ',';
                if (a == pos) n += is_str ? string_arg(args + n, (size_t)L, variant < 4 ? variant : 3, variant < 4 ? 0 : variant - 3) : hex_arg(args + n, (size_t)L, variant < 4 ? 0 : variant - 3);
                else { size_t fn = valid_arg(f, AF[a].type, AF[a].size); memcpy(args + n, f, fn); n += fn; }
        }
        snprintf(ARG_NOTE, sizeof ARG_NOTE, "sweep: %s of data_size %zu at argument position %d, decoded length %ld, variant %d", is_str ? "string" : "hex buffer", size, pos + 1, L, variant);
        ARG_CAP_HINT = chance(30) ? n + rn(4) : 0;          /* a third of the lines on a command capacity that just holds the arguments, or is one byte short of that */
        struct cat_command *c = args_world(nv, chance(70), chance(30), chance(50));
        args_run_and_judge(c, args, n, "C05");
        nontrivial(hash_bytes(args, n, hash_u64((uint64_t)(size * 16 + (size_t)pos * 2 + is_str), 5)));
        DSET("size_length_variant_cells", (uint64_t)((((size * 2 + is_str) * 8 + (size_t)li) * 8 + (size_t)variant) + 1));
        if (L == (long)size - (is_str ? 1 : 0)) CNT("arguments_filling_variable_exactly");
        if (L == (long)size + (is_str ? 0 : 1)) CNT("arguments_one_past_the_variable");
}
static void random_case(void)
{
        int nv = 1 + (int)rn(4);
        for (int j = 0; j < nv; j++) {
                AF[j].type = chance(75) ? (int)(3 + rn(2)) : (int)rn(5);
                unsigned a = rn(20); AF[j].access = a < 14 ? CAT_VAR_ACCESS_READ_WRITE : a < 17 ? CAT_VAR_ACCESS_WRITE_ONLY : CAT_VAR_ACCESS_READ_ONLY;
                AF[j].size = AF[j].type <= CAT_VAR_NUM_HEX ? (size_t[]){ 1, 2, 4 }[rn(3)] : 1 + rn(chance(25) ? 64 : 6);
                AF[j].no_callback = AF[j].access == CAT_VAR_ACCESS_READ_ONLY || chance(30);
        }
        static uint8_t args[1500]; size_t n = 0; char f[300];
        unsigned nargs = chance(70) ? (unsigned)nv : rn((unsigned)nv + 2);
        if (nargs == 0 && chance(50)) nargs = 1;
        for (unsigned a = 0; a < nargs && n < 1100; a++) {
                if (a) args[n++] = ',';
                int type = a < (unsigned)nv ? AF[a].type : (int)rn(5); size_t sz = a < (unsigned)nv ? AF[a].size : 4;
                if (type == CAT_VAR_BUF_STRING) { long L = chance(70) ? (long)sz - 1 - (chance(30) ? 1 : 0) + (chance(30) ? 1 : 0) + (chance(10) ? 1 : 0) : (long)rn((unsigned)sz + 3); if (L < 0) L = 0; n += string_arg(args + n, (size_t)L, (int)rn(4), chance(85) ? 0 : 1 + (int)rn(5)); }
                else if (type == CAT_VAR_BUF_HEX) { long nb = chance(70) ? (long)sz - (chance(30) ? 1 : 0) + (chance(25) ? 1 : 0) : (long)rn(2 * (unsigned)sz + 3); if (nb < 0) nb = 0; n += hex_arg(args + n, (size_t)nb, chance(85) ? 0 : 1 + (int)rn(4)); }
                else { size_t fn = valid_arg(f, type, sz); memcpy(args + n, f, fn); n += fn; }
        }
        if (chance(3)) args[n++] = ',';
        snprintf(ARG_NOTE, sizeof ARG_NOTE, "random: %d variable(s), %u argument(s)", nv, nargs);
        ARG_CAP_HINT = chance(30) ? n + rn(4) : 0;          /* a third of the lines on a command capacity that just holds the arguments, or is one byte short of that */
        struct cat_command *c = args_world(nv, chance(70), chance(30), chance(50));
        args_run_and_judge(c, args, n, "C05");
        uint64_t h = hash_bytes(args, n, 50); for (int j = 0; j < nv; j++) h = hash_u64((uint64_t)(AF[j].type * 100 + (int)AF[j].size), h);
        nontrivial(h);
        if (sample_wanted()) { char b[300]; fmt_bytes(b, sizeof b, args, n > 90 ? 90 : n); sample_printf("%d variable(s) (first: type %d data_size %zu), AT+S=%s -> %s", nv, AF[0].type, AF[0].size, b, LAST_CODE == 'O' ? "OK" : "ERROR"); }
}
struct case_budget chk_budget(const char *tier)
{
        struct case_budget b = { N_SWEEP, strcmp(tier, "thorough") == 0 ? 25000000 : 500000 };
        return b;
}
void chk_run_case(uint64_t seed, long c, bool is_sweep) { (void)seed; ARG_NOTE[0] = 0; ARG_CAP_HINT = 0; if (is_sweep) sweep_case(c); else random_case(); }
int main(int argc, char **argv) { CANARY_PROP = "C05"; MY_PROP = "C05"; PROG_NAME = "chk_C05"; return verif_main(argc, argv); }
