/* C11 — output is a sequence of whole units; the two producers never interleave.
 * Monitors: unit tracker in common.c (every accepted byte must be the next byte owed by the unit that was
 * opened from the producer's own buffer text; no byte of the other producer while a unit is open) and the
 * owed-unit accounting in engine.c (every data unit a handler hands back is emitted exactly once, in order). */
#include "engine.h"

const char *CHK_RULE = "one case = one history: generated table, 1..10 request lines, events triggered at random service steps and from handlers, random write/read "
                       "back-pressure; non-trivial = both producers emitted at least one unit in the history; distinct by (units per producer, contention pattern, "
                       "refusal count bucket, table size)";
void chk_describe(FILE *f) { eng_describe(f); }

struct case_budget chk_budget(const char *tier)
{
        struct case_budget b = { 0, strcmp(tier, "thorough") == 0 ? 800000 : 40000 };
        return b;
}
void chk_run_case(uint64_t seed, long c, bool is_sweep)
{
        (void)seed; (void)c; (void)is_sweep;
        eng_default_profile();
        EP.p_event_step = 30 + rn(120); EP.p_handler_trigger = 25; EP.p_backpressure = 85; EP.p_list = 12; EP.p_hold = 8; EP.p_garbage_line = 3; EP.p_long_line = 3;
        eng_gen_table();
        eng_gen_input(1 + rn(10));
        eng_random_schedules();
        long a0 = PA.units, u0 = PU.units;
        long cont0 = ctr_get("contended_steps_event_holds_line") + ctr_get("contended_steps_cmd_holds_line"), r0 = ctr_get("write_refusals");
        eng_run_history();
        long na = PA.units - a0, nu = PU.units - u0;
        long cont = ctr_get("contended_steps_event_holds_line") + ctr_get("contended_steps_cmd_holds_line") - cont0, ref = ctr_get("write_refusals") - r0;
        if (na > 0 && nu > 0) {
                CNT("histories_with_both_producers");
                uint64_t h = hash_u64((uint64_t)na, 11); h = hash_u64((uint64_t)nu, h); h = hash_u64((uint64_t)(cont > 8 ? 8 : cont), h);
                h = hash_u64((uint64_t)(ref > 64 ? 64 : ref / 4), h); h = hash_u64(W.ncmds, h);
                nontrivial(h);
        }
        if (cont > 0) CNT("histories_with_contention");
        if (sample_wanted() && na && nu) {
                char b[700]; size_t n = OUTN > 160 ? 160 : OUTN; fmt_bytes(b, sizeof b, OUTB, n);
                char p[200]; size_t k = 0; for (size_t i = 0; i < n && k < 199; i++) p[k++] = OUTP[i]; p[k] = 0;
                sample_printf("%zu commands, queue %d, %ld cmd units / %ld event units, %ld contended steps; output \"%s\" producers %s", W.ncmds, QCAP, na, nu, cont, b, p);
        }
}
int main(int argc, char **argv) { MY_PROP = "C11"; PROG_NAME = "chk_C11"; return verif_main(argc, argv); }
