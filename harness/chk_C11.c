/* C11 — output is a sequence of whole units; the two producers never interleave.
 * Monitors: unit tracker in common.c (every accepted byte must be the next byte owed by the unit that was
 * opened from the producer's own buffer text; no byte of the other producer while a unit is open) and the
 * owed-unit accounting in engine.c (every data unit a handler hands back is emitted exactly once, in order). */
#include "engine.h"

const char *CHK_RULE = "one case = one history: generated table, 1..10 request lines, events triggered at random service steps and from handlers, random write/read "
                       "back-pressure; non-trivial = both producers emitted at least one unit in the history; distinct by (units per producer, contention pattern, "
                       "refusal count bucket, table size, run-length sequence of producers in the output stream = the interleaving observed)";
void chk_describe(FILE *f) { eng_describe(f); }

/* deterministic sweep: one event triggered at service step k, one write-refusal run of length L at write attempt p, against a line with a
 * data response and a command list; both producers contend for the line at every relative offset */
#define SW_K 70
#define SW_P 90
static cat_return_state sw_policy(struct hcall *h) { return (h->kind == K_RUN && h->ci == 2) ? CAT_RETURN_STATE_PRINT_CMD_LIST_OK : CAT_RETURN_STATE_DATA_OK; }
static void sweep_case(long item)
{
        static const int LL[3] = { 0, 1, 3 };
        int L = LL[item % 3]; item /= 3; int p = (int)(item % SW_P), k = (int)(item / SW_P);
        w_begin();
        struct cat_command *a = w_group(3, false);
        a[0].name = xstr("+CMD"); { struct cat_variable *v = w_vars(&a[0], 1); v->type = CAT_VAR_UINT_DEC; uint8_t *d = w_vdata(v, 1); *d = 1; } a[0].read = (k & 1) ? h_read : NULL;
        a[1].name = xstr("+UCMD"); { struct cat_variable *v = w_vars(&a[1], 1); v->type = CAT_VAR_UINT_DEC; uint8_t *d = w_vdata(v, 1); *d = 2; } a[1].description = (p & 1) ? xstr("u") : NULL;
        a[2].name = xstr("#HELP"); a[2].run = h_run;
        w_buffers(64, (p & 2) != 0, 32);
        w_init(k & 1);
        in_reset(); in_puts((p & 4) ? "AT+CMD?\r\nAT#HELP\r\n" : "AT+CMD?\nAT#HELP\n");
        static uint8_t bits[256]; memset(bits, 1, sizeof bits); for (int i = 0; i < L; i++) bits[p + i] = 0;
        sch_bits(&WS, bits, sizeof bits); sch_eager(&RS);
        eng_monitors_install();
        ENG_POLICY_OVERRIDE = sw_policy; EP.p_handler_trigger = 0;
        long B = 4000; bool quiet = false;
        for (long i = 0; i < B; i++) {
                if (i == k) eng_trigger(1, (p & 8) ? CAT_CMD_TYPE_TEST : CAT_CMD_TYPE_READ);
                cat_status st = svc(); eng_after_service(st);
                if (case_failed()) break;
                if (st == CAT_STATUS_OK && INPOS >= INLEN && i >= k) { quiet = true; break; }
        }
        if (quiet) {
                CNT("sweep_cases");
                if (PU.units != 1) viol("C11", "unit-lost", "the event unit was emitted %ld times", PU.units);
                if (RESULT_CODES != 2) viol("C01", "final-count", "%ld result codes for 2 lines", RESULT_CODES);
        }
        nontrivial(hash_u64((uint64_t)item * 3 + (uint64_t)L, 1100));
        ENG_POLICY_OVERRIDE = NULL;
}
struct case_budget chk_budget(const char *tier)
{
        struct case_budget b = { (long)SW_K * SW_P * 3, strcmp(tier, "thorough") == 0 ? 4000000 : 100000 };
        return b;
}
void chk_run_case(uint64_t seed, long c, bool is_sweep)
{
        (void)seed;
        eng_default_profile();
        if (is_sweep) { sweep_case(c); return; }
        EP.p_event_step = 30 + rn(120); EP.p_handler_trigger = 25; EP.p_backpressure = 85; EP.p_list = 12; EP.p_hold = 8; EP.p_garbage_line = 3; EP.p_long_line = 3;
        eng_gen_table();
        eng_gen_input(1 + rn(10));
        eng_random_schedules();
        long a0 = PA.units, u0 = PU.units;
        long cont0 = ctr_get("contended_steps_event_holds_line") + ctr_get("contended_steps_cmd_holds_line"), r0 = ctr_get("write_refusals");
        eng_run_history();
        long na = PA.units - a0, nu = PU.units - u0;
        long cont = ctr_get("contended_steps_event_holds_line") + ctr_get("contended_steps_cmd_holds_line") - cont0, ref = ctr_get("write_refusals") - r0;
        if (na > 0 && nu > 0) {
                CNT("histories_with_both_producers");
                uint64_t h = hash_u64((uint64_t)na, 11); h = hash_u64((uint64_t)nu, h); h = hash_u64((uint64_t)(cont > 8 ? 8 : cont), h);
                h = hash_u64((uint64_t)(ref > 64 ? 64 : ref / 4), h); h = hash_u64(W.ncmds, h);
                /* the interleaving actually observed: run-length sequence of producers in the output stream */
                uint64_t il = 7; size_t run = 0;
                for (size_t i = 0; i < OUTN; i++) { if (i && OUTP[i] != OUTP[i - 1]) { il = hash_u64(run * 2 + (OUTP[i - 1] == 'A'), il); run = 0; } run++; }
                DSET("distinct_producer_interleavings", il);
                nontrivial(hash_u64(il, h));
        }
        if (cont > 0) CNT("histories_with_contention");
        if (sample_wanted() && na && nu) {
                char b[700]; size_t n = OUTN > 160 ? 160 : OUTN; fmt_bytes(b, sizeof b, OUTB, n);
                char p[200]; size_t k = 0; for (size_t i = 0; i < n && k < 199; i++) p[k++] = OUTP[i]; p[k] = 0;
                sample_printf("%zu commands, queue %d, %ld cmd units / %ld event units, %ld contended steps; output \"%s\" producers %s", W.ncmds, QCAP, na, nu, cont, b, p);
        }
}
int main(int argc, char **argv) { MY_PROP = "C11"; PROG_NAME = "chk_C11"; return verif_main(argc, argv); }
