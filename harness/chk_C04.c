/* C04 — numeric arguments are stored iff well-formed and in range, with the exact value.
 * Oracle: digit-string arithmetic in refmodel.c (never a machine integer that could wrap), cross-checked on
 * every run against Python's arbitrary-precision int (--oracle-selftest, driven by run.py). */
#include "argcheck.h"

const char *CHK_RULE = "one case = one WRITE line 'AT+S=<args>' for a command with 1..4 variables (sweep: type x width {1,2,4,3,8} x argument position 1..4 x ~330 boundary "
                       "numerals: every width boundary +-1, 2^31, 2^32, 2^63, 2^64, k*2^64+small, signs, leading zeros, malformed shapes; random: boundary-biased and up to "
                       "70-digit numerals, hex in both cases, mixed variable lists, surplus / missing arguments); every judged line is non-trivial; distinct by (types, widths, "
                       "argument text)";
void chk_describe(FILE *f) { args_describe(f); }

typedef unsigned __int128 u128;
static size_t u128_dec(u128 v, char *o) { char t[48]; int n = 0; if (v == 0) t[n++] = '0'; while (v) { t[n++] = (char)('0' + (int)(v % 10)); v /= 10; } for (int i = 0; i < n; i++) o[i] = t[n - 1 - i]; o[n] = 0; return (size_t)n; }
static size_t u128_hex(u128 v, char *o, bool upper) { char t[40]; int n = 0; if (v == 0) t[n++] = '0'; while (v) { int d = (int)(v & 15); t[n++] = (char)(d < 10 ? '0' + d : (upper ? 'A' : 'a') + d - 10); v >>= 4; } for (int i = 0; i < n; i++) o[i] = t[n - 1 - i]; o[n] = 0; return (size_t)n; }

static u128 magnitude(int i)
{
        static const uint64_t small[] = { 0, 1, 9, 10, 126, 127, 128, 129, 254, 255, 256, 257, 32766, 32767, 32768, 32769, 65534, 65535, 65536, 65537,
                                          2147483646ULL, 2147483647ULL, 2147483648ULL, 2147483649ULL, 4294967294ULL, 4294967295ULL, 4294967296ULL, 4294967297ULL,
                                          9223372036854775806ULL, 9223372036854775807ULL, 9223372036854775808ULL, 9223372036854775809ULL, 18446744073709551614ULL, 18446744073709551615ULL };
        const int ns = (int)(sizeof small / sizeof small[0]);
        if (i < ns) return small[i];
        u128 two64 = (u128)1 << 64;
        switch (i - ns) {
        case 0: return two64; case 1: return two64 + 1; case 2: return two64 + 5; case 3: return two64 + 127; case 4: return two64 + 128; case 5: return two64 + 255;
        case 6: return two64 + 65535; case 7: return two64 * 2 + 5; case 8: return two64 * 10 + 7; case 9: return two64 * 16 + 5; case 10: return two64 * 256 + 3;
        case 11: return (two64 - 128); case 12: return two64 - 32768; case 13: return two64 * 10 - 3; case 14: return ((u128)1 << 100) + 77; default: return ((u128)1 << 127) + 5;
        }
}
#define N_MAG (34 + 16)
static const char *MALFORMED[] = { "", "-", "+", "0x", "0X", "x1", "1x", " 1", "1 ", "--1", "+-1", "-+1", "1.0", "0x1G", "0x-1", "1e3", "0b1", "'1'", "0x 1", "1\t" };
#define N_MAL 20
#define ZF 21          /* 3 sign forms x 7 leading-zero counts */
static const int ZEROS[7] = { 0, 1, 25, 236, 255, 256, 300 };       /* digit counters must not wrap: total digit counts around 2^8 */
#define PER_TS (N_MAG * ZF + N_MAL)

static size_t numeral(char *o, int type, int item)
{
        if (item >= N_MAG * ZF) { strcpy(o, MALFORMED[item - N_MAG * ZF]); return strlen(o); }
        u128 m = magnitude(item / ZF); int form = item % ZF, sign = form % 3, zeros = ZEROS[form / 3];
        char *p = o;
        if (type == CAT_VAR_NUM_HEX) {
                *p++ = '0'; *p++ = (sign == 1) ? 'X' : 'x';
                for (int z = 0; z < zeros; z++) *p++ = '0';
                p += u128_hex(m, p, sign == 2);
        } else {
                if (sign == 1) *p++ = '-'; else if (sign == 2) *p++ = '+';
                for (int z = 0; z < zeros; z++) *p++ = '0';
                p += u128_dec(m, p);
        }
        *p = 0;
        return (size_t)(p - o);
}
static size_t valid_arg(char *o, int type, size_t size)
{
        switch (type) {
        case CAT_VAR_INT_DEC: return (size_t)sprintf(o, "%d", (int)rn(100) - 50);
        case CAT_VAR_UINT_DEC: return (size_t)sprintf(o, "%u", rn(200));
        case CAT_VAR_NUM_HEX: return (size_t)sprintf(o, "0x%X", rn(200));
        case CAT_VAR_BUF_HEX: { size_t nb = 1 + rn((unsigned)size); for (size_t i = 0; i < nb * 2; i++) o[i] = "0123456789abcdefABCDEF"[rn(22)]; o[nb * 2] = 0; return nb * 2; }
        default: {      /* a valid string of L decoded characters: letters, commas, and the three escapes (also as the last character: "...\\\\" ends in an escaped backslash right before the closing quote) */
                size_t L = rn((unsigned)size), k = 0; o[k++] = '"';
                for (size_t i = 0; i < L; i++) { unsigned r = rn(12); if (r == 0 || (i + 1 == L && r < 4)) { o[k++] = '\\'; o[k++] = "\\\"n"[rn(3)]; } else if (r == 1) o[k++] = ','; else o[k++] = (char)('a' + rn(26)); }
                o[k++] = '"'; o[k] = 0; return k; }
        }
}
static const size_t WIDTHS[9] = { 1, 2, 4, 3, 8, 257, 258, 260, 65540 };     /* supported, unsupported, and unsupported widths whose low byte / low 16 bits look supported */
#define NW 9

static void sweep_case(long item)
{
        int num = (int)(item % PER_TS); item /= PER_TS;
        int type = (int)(item % 3); item /= 3;
        int wi = (int)(item % NW); item /= NW;
        int pos = (int)item;           /* 0..3 */
        int nv = pos + 1 + (int)rn(4 - (unsigned)pos);
        for (int j = 0; j < nv; j++) {
                AF[j].type = (j == pos) ? type : (int)rn(5); AF[j].access = chance(80) ? CAT_VAR_ACCESS_READ_WRITE : CAT_VAR_ACCESS_WRITE_ONLY; AF[j].no_callback = chance(30);
                if (j != pos && AF[j].type > CAT_VAR_NUM_HEX && chance(25)) AF[j].access = CAT_VAR_ACCESS_READ_ONLY;      /* read-only buffers / strings around the number: their arguments are checked and skipped */
                AF[j].size = (j == pos) ? WIDTHS[wi] : (AF[j].type <= CAT_VAR_NUM_HEX ? WIDTHS[rn(3)] : 1 + rn(8));
        }
        uint8_t args[1400]; size_t n = 0; char f[500];
        int nargs = pos + 1 + (chance(60) ? (int)rn((unsigned)(nv - pos)) : 0);
        for (int a = 0; a < nargs; a++) {
                if (a) args[n++] = ',';
                size_t fn = (a == pos) ? numeral(f, type, num) : valid_arg(f, AF[a].type, AF[a].size);
                memcpy(args + n, f, fn); n += fn;
        }
        snprintf(ARG_NOTE, sizeof ARG_NOTE, "sweep: numeral #%d for type %d width %zu at argument position %d of %d", num, type, WIDTHS[wi], pos + 1, nargs);
        ARG_CAP_HINT = chance(30) ? n + rn(4) : 0;          /* a third of the lines on a command capacity that just holds the arguments, or is one byte short of that */
        struct cat_command *c = args_world(nv, chance(70), chance(30), chance(50));
        args_run_and_judge(c, args, n, "C04");
        nontrivial(hash_bytes(args, n, hash_u64((uint64_t)(type * 64 + wi * 8 + pos), 4)));
        DSET("type_width_position_class", (uint64_t)(((type * NW + wi) * 4 + pos) * 64 + num / ZF + 1));
}

static size_t random_numeral(char *o, int type)
{
        char *p = o;
        if (type == CAT_VAR_NUM_HEX) {
                if (chance(93)) { *p++ = '0'; *p++ = chance(50) ? 'x' : 'X'; }
                unsigned z = chance(20) ? rn(20) : 0; for (unsigned i = 0; i < z; i++) *p++ = '0';
                if (chance(95)) { u128 v = chance(60) ? magnitude((int)rn(N_MAG)) + rn(3) - 1 : (u128)(rnd() >> rn(64)); p += u128_hex(v, p, chance(50)); if (chance(8)) p += u128_hex(rnd(), p, chance(50)); }
                if (chance(3)) *p++ = 'g';
        } else {
                if (type == CAT_VAR_INT_DEC) { unsigned r = rn(10); if (r < 4) *p++ = '-'; else if (r < 5) *p++ = '+'; } else if (chance(3)) *p++ = chance(50) ? '+' : '-';
                unsigned z = chance(20) ? rn(30) : chance(4) ? 200 + rn(120) : 0; for (unsigned i = 0; i < z; i++) *p++ = '0';
                if (chance(96)) {
                        if (chance(8)) { unsigned nd = 20 + rn(50); for (unsigned i = 0; i < nd; i++) *p++ = (char)('0' + rn(10)); }       /* up to 70 digits */
                        else { u128 v = chance(60) ? magnitude((int)rn(N_MAG)) + rn(3) - 1 : (u128)(rnd() >> rn(64)); if (chance(10)) v += ((u128)(1 + rn(20))) << 64; p += u128_dec(v, p); }
                }
                if (chance(3)) *p++ = "a -+.x"[rn(6)];
                if (chance(2)) { memmove(o + 1, o, (size_t)(p - o)); o[0] = ' '; p++; }
        }
        if (chance(2) && p > o) {      /* a terminal control sequence (cursor key, ESC [ ... letter) somewhere in the numeral: never part of a number */
                static const char *seq[4] = { "\x1b[C", "\x1b[1;5D", "\x1b[A", "\x1b[2~" };
                const char *q = seq[rn(4)]; size_t L = strlen(q), at = rn((unsigned)(p - o) + 1);
                memmove(o + at + L, o + at, (size_t)(p - o) - at); memcpy(o + at, q, L); p += L;
        }
        *p = 0;
        return (size_t)(p - o);
}
static void random_case(void)
{
        int nv = 1 + (int)rn(4);
        for (int j = 0; j < nv; j++) {
                AF[j].type = chance(75) ? (int)rn(3) : (int)rn(5);
                unsigned a = rn(20); AF[j].access = a < 15 ? CAT_VAR_ACCESS_READ_WRITE : a < 18 ? CAT_VAR_ACCESS_WRITE_ONLY : CAT_VAR_ACCESS_READ_ONLY;
                AF[j].size = AF[j].type <= CAT_VAR_NUM_HEX ? WIDTHS[rn(chance(85) ? 3 : NW)] : 1 + rn(chance(20) ? 64 : 6);
                AF[j].no_callback = AF[j].access == CAT_VAR_ACCESS_READ_ONLY || chance(30);
        }
        uint8_t args[2400]; size_t n = 0; char f[600];
        unsigned nargs = chance(70) ? (unsigned)nv : rn((unsigned)nv + 2);
        if (nargs == 0 && chance(50)) nargs = 1;
        for (unsigned a = 0; a < nargs && n < 1500; a++) {
                if (a) args[n++] = ',';
                int type = a < (unsigned)nv ? AF[a].type : (int)rn(5); size_t sz = a < (unsigned)nv ? AF[a].size : 4;
                size_t fn = type <= CAT_VAR_NUM_HEX ? (chance(3) ? 0 : random_numeral(f, type)) : valid_arg(f, type, sz);
                memcpy(args + n, f, fn); n += fn;
        }
        if (chance(3)) args[n++] = ',';
        snprintf(ARG_NOTE, sizeof ARG_NOTE, "random: %d variable(s), %u argument(s)", nv, nargs);
        ARG_CAP_HINT = chance(30) ? n + rn(4) : 0;          /* a third of the lines on a command capacity that just holds the arguments, or is one byte short of that */
        struct cat_command *c = args_world(nv, chance(70), chance(30), chance(50));
        args_run_and_judge(c, args, n, "C04");
        uint64_t h = hash_bytes(args, n, 40); for (int j = 0; j < nv; j++) h = hash_u64((uint64_t)(AF[j].type * 100 + (int)AF[j].size), h);
        nontrivial(h);
        { size_t digits = 0; for (size_t i = 0; i < n; i++) if (args[i] >= '0' && args[i] <= '9') digits++; DSET("digit_count_histogram", digits + 1); }
        if (sample_wanted()) { char b[300]; fmt_bytes(b, sizeof b, args, n > 90 ? 90 : n); sample_printf("%d variable(s) (first: type %d width %zu), AT+S=%s -> %s", nv, AF[0].type, AF[0].size, b, LAST_CODE == 'O' ? "OK" : "ERROR"); }
}

struct case_budget chk_budget(const char *tier)
{
        struct case_budget b = { (long)PER_TS * 3 * NW * 4, strcmp(tier, "thorough") == 0 ? 30000000 : 600000 };
        return b;
}
void chk_run_case(uint64_t seed, long c, bool is_sweep) { (void)seed; ARG_NOTE[0] = 0; ARG_CAP_HINT = 0; if (is_sweep) sweep_case(c); else random_case(); }

/* --oracle-selftest: read "type size text" lines, print "1 <value as unsigned little-endian integer>" or "0" */
static int oracle_selftest(void)
{
        char line[400];
        while (fgets(line, sizeof line, stdin)) {
                int type; unsigned size; char text[300] = "";
                int k = sscanf(line, "%d %u %299s", &type, &size, text);
                if (k < 2) continue;
                uint8_t out[8] = { 0 };
                int ok = ref_num(type, size, (const uint8_t *)text, strlen(text), out);
                uint64_t v = 0; if (ok) memcpy(&v, out, size > 8 ? 8 : size);
                printf("%d %llu\n", ok, (unsigned long long)v);
        }
        return 0;
}
int main(int argc, char **argv)
{
        if (argc > 1 && strcmp(argv[1], "--oracle-selftest") == 0) return oracle_selftest();
        MY_PROP = "C04"; PROG_NAME = "chk_C04"; return verif_main(argc, argv);
}
