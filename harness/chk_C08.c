/* C08 — read-only variables are never modified and write-only ones never disclosed.
 * (a) snapshot comparison of every read-only variable after every service call;
 * (b) twin execution: two runs that differ only in the initial contents of write-only variables must produce
 *     identical output bytes and identical handler-visible texts (non-interference decided directly);
 *     plus: write-only numeric positions of an automatic READ response read 0 / 0x00..;
 * (c) READ with nothing readable and no read handler, WRITE with nothing writable and no write handler: ERROR. */
#include "engine.h"

const char *CHK_RULE = "one case = one generated table (1..6 variables per command, every type x width x access) and 3..10 lines (valid, malformed and over-range writes, "
                       "READ, TEST) plus READ/TEST events triggered at quiescent points, executed twice with independently drawn write-only contents; non-trivial = the table has "
                       "a read-only and a write-only variable that the lines address; distinct by (output hash, table shape)";

static uint64_t trace_h; static long ro_checks;
static uint8_t *ro_snap; static size_t nvb;
static char note[200];
static cat_return_state policy(struct hcall *h)
{
        if (h->kind == K_WRITE) trace_h = hash_bytes(h->data, h->size, hash_u64((uint64_t)(h->ci * 8 + h->kind), trace_h));
        else if (h->kind != K_RUN) { trace_h = hash_bytes(h->data, strnlen((char *)h->data, h->max), hash_u64((uint64_t)(h->ci * 8 + h->kind + h->fsm * 4), trace_h)); return pr_n(&H, 4) ? CAT_RETURN_STATE_DATA_OK : CAT_RETURN_STATE_OK; }
        return CAT_RETURN_STATE_OK;
}
static unsigned vfail_pct;
static int vpolicy(int ci, int vi, int dir, size_t ws)
{
        trace_h = hash_u64((uint64_t)(ci * 1000 + vi * 10 + dir) + ws * 100000, trace_h);
        if (pr_pct(&H, vfail_pct)) { CNT("variable_callbacks_failing"); return dir ? 1 : -1; }      /* a hook that rejects (same decisions in both runs of a twin) */
        return 0;
}
static void check_ro(const char *when)
{
        const uint8_t *p = ro_snap;
        for (size_t i = 0; i < W.ncmds; i++) for (size_t j = 0; j < W.cmd[i]->var_num; j++) {
                const struct cat_variable *v = &W.cmd[i]->var[j];
                if (v->access == CAT_VAR_ACCESS_READ_ONLY && memcmp(v->data, p, v->data_size) != 0) { viol("C08", "read-only-modified", "read-only variable %zu of cmd#%zu \"%s\" changed (%s)", j, i, W.cmd[i]->name, when); return; }
                p += v->data_size;
        }
        ro_checks++;
}
#define MAXSEG 5
static struct { size_t in_end; int ntrig, tci[4], ttype[4]; } seg[MAXSEG]; static int nseg;
static uint8_t out1[1 << 15]; static size_t out1n; static uint64_t trace1;
void chk_describe(FILE *f)
{
        w_describe(f); fprintf(f, "%s\n", note);
        for (int s = 0; s < nseg; s++) { fprintf(f, "  segment %d: input up to %zu, events:", s, seg[s].in_end); for (int t = 0; t < seg[s].ntrig; t++) fprintf(f, " (cmd#%d,%s)", seg[s].tci[t], seg[s].ttype[t] == CAT_CMD_TYPE_READ ? "READ" : "TEST"); fprintf(f, "\n"); }
        static char b[1 << 15]; fmt_bytes(b, sizeof b, out1, out1n > 2500 ? 2500 : out1n); fprintf(f, "output of run 1: \"%s\"\n", b);
        io_describe(f);
}

/* automatic READ response of a command whose variables are all numeric: write-only positions must print zero */
static void check_zero_forms(const char *text, const struct cat_command *c)
{
        const char *p = strchr(text, '=');
        if (!p || strncmp(text, c->name, strlen(c->name)) != 0) return;
        p++;
        for (size_t j = 0; j < c->var_num; j++) {
                const char *e = strchr(p, ','); size_t n = e ? (size_t)(e - p) : strlen(p);
                const struct cat_variable *v = &c->var[j];
                if (v->access == CAT_VAR_ACCESS_WRITE_ONLY) {
                        char want[16];
                        if (v->type == CAT_VAR_NUM_HEX) snprintf(want, sizeof want, "0x%0*X", (int)v->data_size * 2, 0); else strcpy(want, "0");
                        CNT("write_only_positions_checked_zero");
                        if (n != strlen(want) || memcmp(p, want, n) != 0) viol("C08", "write-only-not-zero", "write-only position %zu of \"%s\" prints \"%.*s\" instead of %s", j, c->name, (int)n, p, want);
                }
                if (!e) break;
                p = e + 1;
        }
}
static const struct cat_command *cur_auto; static int cur_fsm;
/* an event raised in the middle of a line (at a fixed input offset, so that both runs of a twin stay aligned): the command machine is then busy with a request of its own kind */
static struct { long off; int ci, type; } mid[8]; static int nmid;
static void on_read(size_t off, uint8_t ch) { (void)ch; for (int k = 0; k < nmid; k++) if (mid[k].off == (long)off) { (void)cat_trigger_unsolicited_event(W.at, W.cmd[mid[k].ci], (cat_cmd_type)mid[k].type); CNT("events_raised_in_the_middle_of_a_line"); } }
static void on_unit(bool isA, bool raw, const char *text, size_t len, bool a, bool b)
{
        (void)len; (void)a; (void)b;
        if (raw) return;
        if (!isA) for (size_t i = 0; i < W.ncmds; i++) {      /* a READ event of a command that offers nothing readable and has no read handler prints nothing (a TEST event prints "<name>=<..." or the bare prefix) */
                const struct cat_command *c = W.cmd[i]; size_t nl = strlen(c->name);
                if (c->read != NULL || ref_readable(c) || strncmp(text, c->name, nl) != 0 || text[nl] != '=') continue;
                bool unique = true; for (size_t k = 0; k < W.ncmds; k++) if (k != i && strncmp(W.cmd[k]->name, c->name, nl < strlen(W.cmd[k]->name) ? nl : strlen(W.cmd[k]->name)) == 0) unique = false;
                char nx = text[nl + 1];
                if (unique && nx != '<' && nx != 0 && nx != '\n' && nx != '\r') { viol("C08", "read-not-refused", "an unsolicited READ of \"%s\" (nothing readable, no read handler) printed \"%.40s\"", c->name, text); return; }
        }
        for (size_t i = 0; i < W.ncmds; i++) {
                const struct cat_command *c = W.cmd[i];
                if (c->read != NULL || !c->var_num) continue;
                bool numeric = true; for (size_t j = 0; j < c->var_num; j++) if (c->var[j].type > CAT_VAR_NUM_HEX) numeric = false;
                size_t nl = strlen(c->name);
                /* unambiguous attribution: unique name among commands, text = name '=' digits/commas */
                if (numeric && strncmp(text, c->name, nl) == 0 && text[nl] == '=' && text[nl + 1] != '<' && text[nl + 1] != 0) {
                        bool unique = true; for (size_t k = 0; k < W.ncmds; k++) if (k != i && strcmp(W.cmd[k]->name, c->name) == 0) unique = false;
                        if (unique) check_zero_forms(text, c);
                        break;
                }
        }
        (void)isA; (void)cur_auto; (void)cur_fsm;
}
static bool run_once(const uint8_t *vars)
{
        w_load_vars(vars);
        w_reinit(0);
        INPOS = 0; out_reset(); units_reset(); trace_h = 99;
        pr_seed(&H, CUR_SEED + 8, (uint64_t)CUR_CASE);
        POLICY = policy; VPOLICY = vpolicy; ON_UNIT = on_unit; ON_READ = on_read;
        size_t full = INLEN; bool ok = true;
        for (int s = 0; s < nseg && ok; s++) {
                for (int t = 0; t < seg[s].ntrig; t++) cat_trigger_unsolicited_event(W.at, W.cmd[seg[s].tci[t]], (cat_cmd_type)seg[s].ttype[t]);
                INLEN = seg[s].in_end;
                long bound = quiet_bound() + 4000; bool q = false;
                for (long i = 0; i < bound; i++) { cat_status st = svc(); check_ro("after a service call"); if (case_failed()) { INLEN = full; return true; } if (st == CAT_STATUS_OK && INPOS >= INLEN) { q = true; break; } }
                if (!q) ok = false;
        }
        INLEN = full;
        return ok;
}

struct case_budget chk_budget(const char *tier)
{
        struct case_budget b = { 0, strcmp(tier, "thorough") == 0 ? 6000000 : 120000 };
        return b;
}
void chk_run_case(uint64_t seed, long c, bool is_sweep)
{
        (void)seed; (void)c; (void)is_sweep; note[0] = 0;
        eng_default_profile();
        EP.p_garbage_line = 2; EP.p_long_line = 3; EP.max_cmds = 8;
        eng_gen_table();
        bool has_ro = false, has_wo = false;
        struct cat_command *wide_cmd = NULL;
        vfail_pct = chance(40) ? 15 : 0;
        if (chance(6)) {      /* one command with a long variable list (33 .. 72 entries, every access mode at every position) on buffers that hold its texts */
                struct cat_command *cm = wide_cmd = W.cmd[rn(W.ncmds)];
                unsigned nv = 33 + rn(40);
                struct cat_variable *v = w_vars(cm, nv);
                for (unsigned k = 0; k < nv; k++) {
                        v[k].type = chance(85) ? (cat_var_type)rn(3) : (cat_var_type)(3 + rn(2)); v[k].access = (cat_var_access)rn(3);
                        size_t sz = v[k].type <= CAT_VAR_NUM_HEX ? (size_t[]){ 1, 1, 2, 4 }[rn(4)] : 1 + rn(3);
                        uint8_t *d = w_vdata(&v[k], sz); for (size_t b = 0; b < sz; b++) d[b] = (uint8_t)rnd();
                        if (v[k].type == CAT_VAR_BUF_STRING) { for (size_t b = 0; b < sz; b++) if (d[b] == 0 || d[b] == '\r') d[b] = 'q'; d[sz - 1] = 0; }
                        if (chance(10)) v[k].read = hv_read;
                        if (chance(10)) v[k].write = hv_write;
                }
                size_t cap = 24 * (size_t)nv + 64; bool shared = chance(50);
                w_buffers(shared ? cap * 2 : cap, shared, cap);
                w_init((int)rn(2));
                CNT("tables_with_a_command_of_more_than_32_variables");
        }
        if (W.ncmds >= 2 && chance(30)) {      /* two commands that are views of one variable table (same var pointer, different var_num): what one offers says nothing about the other */
                for (unsigned k = 0, n = 1 + rn(2); k < n; k++) {
                        struct cat_command *a = W.cmd[rn(W.ncmds)], *b = W.cmd[rn(W.ncmds)];
                        if (a == b || a->var_num < 2) continue;
                        b->var = a->var; b->var_num = 1 + rn((unsigned)a->var_num - 1);
                        CNT("commands_sharing_a_variable_table");
                }
        }
        for (size_t i = 0; i < W.ncmds; i++) {
                struct cat_command *cm = W.cmd[i];
                if (chance(50)) cm->read = NULL;
                if (chance(50)) cm->write = NULL;
                cm->only_test = false;
                for (size_t j = 0; j < cm->var_num; j++) { if (cm->var[j].access == CAT_VAR_ACCESS_READ_ONLY) has_ro = true; if (cm->var[j].access == CAT_VAR_ACCESS_WRITE_ONLY) has_wo = true; }
        }
        nvb = w_total_var_bytes();
        uint8_t *v1 = xalloc(nvb + 1), *v2 = xalloc(nvb + 1); ro_snap = xalloc(nvb + 1);
        w_save_vars(v1); memcpy(ro_snap, v1, nvb); memcpy(v2, v1, nvb);
        {       /* twin: independent contents for write-only variables (patterns containing quote / backslash / NUL included) */
                uint8_t *p = v2;
                for (size_t i = 0; i < W.ncmds; i++) for (size_t j = 0; j < W.cmd[i]->var_num; j++) {
                        const struct cat_variable *v = &W.cmd[i]->var[j];
                        if (v->access == CAT_VAR_ACCESS_WRITE_ONLY) for (size_t b = 0; b < v->data_size; b++) p[b] = chance(30) ? (uint8_t)"\"\\\0\n,"[rn(5)] : (uint8_t)rnd();
                        if (v->access == CAT_VAR_ACCESS_WRITE_ONLY && v->type <= CAT_VAR_NUM_HEX && chance(40)) {      /* the values at the edges of the type: most negative, most positive, all ones, one */
                                static const uint8_t pat[4][2] = { { 0x00, 0x80 }, { 0xff, 0x7f }, { 0xff, 0xff }, { 0x00, 0x00 } }; unsigned k = rn(4);
                                for (size_t b = 0; b < v->data_size; b++) p[b] = pat[k][b + 1 == v->data_size ? 1 : 0];
                                if (k == 3) p[0] = 1;
                        }
                        p += v->data_size;
                }
        }
        in_reset();
        nseg = 1 + (int)rn(MAXSEG);
        for (int s = 0; s < nseg; s++) {
                unsigned nl = 1 + rn(3);
                for (unsigned l = 0; l < nl; l++) {
                        if (wide_cmd && chance(40)) {      /* a WRITE whose every argument is acceptable, so that the decoder walks the whole list */
                                in_puts("AT"); in_puts(wide_cmd->name); if (!wide_cmd->implicit_write) in_putc('=');
                                for (size_t j = 0; j < wide_cmd->var_num; j++) {
                                        const struct cat_variable *v = &wide_cmd->var[j]; char t[300] = "";      /* the command's table may have been replaced by a shared one meanwhile: sizes up to 64 */
                                        switch (v->type) {
                                        case CAT_VAR_INT_DEC: snprintf(t, sizeof t, "%d", (int)rn(200) - 100); break;
                                        case CAT_VAR_UINT_DEC: snprintf(t, sizeof t, "%u", rn(200)); break;
                                        case CAT_VAR_NUM_HEX: snprintf(t, sizeof t, "0x%X", rn(200)); break;
                                        case CAT_VAR_BUF_HEX: for (size_t b = 0; b < v->data_size && b < 100; b++) snprintf(t + 2 * b, 3, "%02X", rn(256)); break;
                                        default: { size_t L = rn((unsigned)v->data_size); if (L > 200) L = 200; t[0] = '"'; for (size_t b = 0; b < L; b++) t[1 + b] = (char)('a' + rn(26)); t[1 + L] = '"'; t[2 + L] = 0; } break;
                                        }
                                        if (j) in_putc(',');
                                        in_puts(t);
                                }
                                in_putc('\n'); CNT("complete_write_lines_to_a_command_of_more_than_32_variables");
                        }
                        else if (chance(35)) { const struct cat_command *cm = W.cmd[rn(W.ncmds)]; in_puts("AT"); in_puts(cm->name); in_puts(chance(60) ? "?" : "=?"); in_putc('\n'); }
                        else eng_gen_line();
                }
                seg[s].in_end = INLEN;
                seg[s].ntrig = (int)rn(QCAP + 1 > 4 ? 4 : QCAP + 1);
                for (int t = 0; t < seg[s].ntrig; t++) { seg[s].tci[t] = (int)rn(W.ncmds); seg[s].ttype[t] = chance(60) ? CAT_CMD_TYPE_READ : CAT_CMD_TYPE_TEST; }
        }
        nmid = 0;
        if (QCAP >= 1 && chance(40)) for (unsigned k = 0, n = 1 + rn(3); k < n && INLEN > 4; k++) { mid[nmid].off = (long)rn((unsigned)INLEN); mid[nmid].ci = (int)rn(W.ncmds); mid[nmid].type = chance(70) ? CAT_CMD_TYPE_READ : CAT_CMD_TYPE_TEST; nmid++; }
        sch_eager(&RS); sch_eager(&WS);
        snprintf(note, sizeof note, "run 1 (original write-only contents)");
        if (!run_once(v1)) { inconclusive("no quiescence (C15's subject)"); return; }
        if (case_failed()) return;
        out1n = OUTN < sizeof out1 ? OUTN : sizeof out1; memcpy(out1, OUTB, out1n); trace1 = trace_h;
        snprintf(note, sizeof note, "run 2 (write-only contents redrawn); outputs of both runs must be identical");
        if (!run_once(v2)) { inconclusive("no quiescence (C15's subject)"); return; }
        if (case_failed()) return;
        CNT("twin_pairs");
        if (OUTN != out1n || memcmp(OUTB, out1, out1n) != 0) {
                size_t d = 0; while (d < out1n && d < OUTN && OUTB[d] == out1[d]) d++;
                viol("C08", "write-only-disclosed", "output depends on the contents of write-only variables: the two runs differ at output offset %zu", d);
        } else if (trace_h != trace1) viol("C08", "write-only-disclosed-to-handler", "handler-visible texts / arguments depend on the contents of write-only variables");
        if (sample_wanted() && has_wo) { char b[300]; fmt_bytes(b, sizeof b, INB, INLEN > 90 ? 90 : INLEN); sample_printf("%zu commands, %zu variable bytes, input \"%s\": %zu output bytes identical in both runs although write-only contents differ", W.ncmds, nvb, b, out1n); }
        nmid = 0;      /* no more events raised by offsets: the single lines below have offsets of their own */
        /* (c) gating, on the quiescent parser of run 2 */
        for (size_t i = 0; i < W.ncmds && !case_failed(); i++) {
                const struct cat_command *cm = W.cmd[i];
                struct ref_line r; char line[80];
                for (int form = 0; form < 2; form++) {
                        int n = snprintf(line, sizeof line, "AT%s%s", cm->name, form ? "=1" : "?");
                        ref_parse_line((uint8_t *)line, (size_t)n, W.capA, &r);
                        if (r.cls != RL_REQ || r.ci != (int)i || r.kind != (form ? K_WRITE : K_READ)) continue;        /* shadowed, disabled, implicit ... */
                        bool refuse = form ? (!ref_writable(cm) && cm->write == NULL) : (!ref_readable(cm) && cm->read == NULL);
                        if (!refuse) continue;
                        in_reset(); in_puts(line); in_putc('\n'); out_reset(); units_reset();
                        long hc0 = 0; for (int k = 0; k < 4; k++) hc0 += N_HCALL[0][k]; hc0 += N_VCALL[0] + N_VCALL[1];
                        if (run_quiet(quiet_bound()) < 0) { inconclusive("no quiescence"); return; }
                        long hc1 = 0; for (int k = 0; k < 4; k++) hc1 += N_HCALL[0][k]; hc1 += N_VCALL[0] + N_VCALL[1];
                        CNT("gating_lines");
                        if (!(RESULT_CODES == 1 && LAST_CODE == 'E' && PA.units == 1) || hc1 != hc0)
                                viol("C08", form ? "write-not-refused" : "read-not-refused", "\"%s\" on a command offering nothing %s and no handler: %ld codes (last %c), %ld units, %ld callbacks", line, form ? "writable" : "readable", RESULT_CODES, LAST_CODE ? LAST_CODE : '-', PA.units, hc1 - hc0);
                        check_ro("after a gated request");
                }
        }
        CNTN("read_only_snapshot_comparisons", ro_checks); ro_checks = 0;
        if (has_ro && has_wo) nontrivial(hash_bytes(out1, out1n, hash_u64(W.ncmds * 131 + nvb, 8)));
}
int main(int argc, char **argv) { MY_PROP = "C08"; PROG_NAME = "chk_C08"; return verif_main(argc, argv); }
