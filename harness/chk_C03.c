/* C03 — no out-of-bounds access or undefined behaviour for any input or descriptor.
 * This program is the dedicated boundary workload; the C03 check additionally replays the generators of all other
 * properties on the sanitizer builds (run.py).  Deciding instruments: ASan/UBSan/MSan/memcheck reports, canaries
 * behind every exactly-sized block (plain builds), and the hook-based comparison of the two halves of a shared
 * working buffer (common.c cat_verif_phase).  Behavioural monitors of other properties are ignored here. */
#include "engine.h"

const char *CHK_RULE = "one case = one history on exactly-sized heap blocks (sweep: command capacity 6..40 x every byte value x argument length capacity-2..capacity+2 and "
                       "3*capacity; tables of n = 1..160 commands on the minimal legal capacity max(6, ceil(n/4)); event buffers of 0..7 bytes x names of 0..3 characters x READ/TEST events; random: generated tables incl. unsupported integer widths, "
                       "buffer sizes down to the minimum, unsolicited buffer sizes 0..40, odd buf_size, all handler return codes incl. out-of-range values and HOLD from event "
                       "handlers, events at random points, back-pressure, disable flags flipped between service calls, empty command names); non-trivial = a case that wrote the last legal byte of some buffer or variable; distinct by (capacity, "
                       "table size, input hash)";
static char mode[100];
void chk_describe(FILE *f) { fprintf(f, "%s\n", mode); eng_describe(f); }

static void edge_accounting(void)
{
        /* which buffers had their last byte written (a NUL or data): evidence that the workload sits at the red zones */
        bool edge = false;
        if (W.capA && W.bufA[W.capA - 1] != 0xEE) { CNT("cases_touching_last_byte_of_command_buffer"); edge = true; }
        if (W.capU && W.bufU[W.capU - 1] != 0xEE) { CNT("cases_touching_last_byte_of_event_buffer"); edge = true; }
        if (edge) nontrivial(hash_bytes(INB, INLEN > 64 ? 64 : INLEN, hash_u64(W.capA * 1000 + W.ncmds, W.capU)));
}
static void paint(void) { if (W.capA) W.bufA[W.capA - 1] = 0xEE; if (W.capU) W.bufU[W.capU - 1] = 0xEE; }

#define N_LEN 6
static const int DL[N_LEN] = { -2, -1, 0, 1, 2, 1000 };
#define N_SWEEP_A (35L * 256 * N_LEN)
#define N_SWEEP_C 160L
static void sweep_bytes(long item)
{
        int li = (int)(item % N_LEN); item /= N_LEN; int byte = (int)(item % 256); size_t cap = 6 + (size_t)(item / 256);
        snprintf(mode, sizeof mode, "sweep: capacity %zu, argument byte 0x%02x, length class %d", cap, byte, DL[li]);
        w_begin();
        struct cat_command *a = w_group(3, false);
        a[0].name = xstr("+W"); a[0].write = h_write;
        a[1].name = xstr("+S"); { struct cat_variable *v = w_vars(&a[1], 2); v[0].type = CAT_VAR_BUF_STRING; w_vdata(&v[0], 1 + (size_t)(byte % 7)); v[1].type = CAT_VAR_BUF_HEX; w_vdata(&v[1], 1 + (size_t)(byte % 5)); }
        a[2].name = xstr("D"); a[2].write = h_write; a[2].implicit_write = true;
        bool shared = (byte & 1) != 0;
        w_buffers(shared ? cap * 2 + (size_t)((byte >> 1) & 1) : cap, shared, (size_t)(byte % 41));
        w_init((byte >> 2) & 1);
        paint();
        size_t L = DL[li] == 1000 ? cap * 3 : (size_t)((long)cap + DL[li]);
        in_reset();
        static const char *pre[3] = { "AT+W=", "AT+S=\"", "ATD" };
        in_puts(pre[byte % 3]);
        for (size_t i = 0; i < L; i++) in_putc(byte == '\n' ? 'x' : byte);
        in_putc('\n');
        in_puts("AT+S=\"\\\\\\\\\\\\\\\\\\\\\\\\\",0011223344556677\n");       /* escaped characters and hex bytes running past small variables */
        sch_eager(&RS); sch_eager(&WS);
        EP.p_event_step = 30; EP.unspecified_cells = true;
        eng_run_history();
        edge_accounting();
}
static void sweep_mincap(long item)
{
        size_t n = 1 + (size_t)item, cap = (n + 3) / 4; if (cap < 6) cap = 6;
        snprintf(mode, sizeof mode, "sweep: %zu commands on the minimal capacity %zu", n, cap);
        w_begin();
        struct cat_command *a = w_group(n, false);
        for (size_t i = 0; i < n; i++) { char nm[12]; snprintf(nm, sizeof nm, "+%c%zu", 'A' + (int)(i % 3), i); a[i].name = xstr(nm); a[i].run = h_run; a[i].write = h_write; if (i % 5 == 0) { struct cat_variable *v = w_vars(&a[i], 1); v->type = CAT_VAR_UINT_DEC; w_vdata(v, 1); } }
        bool shared = item & 1;
        w_buffers(shared ? cap * 2 : cap, shared, (size_t)(item % 9));
        w_init((int)(item & 1));
        paint();
        in_reset();
        char l[40]; snprintf(l, sizeof l, "AT+%c%zu\n", 'A' + (int)((n - 1) % 3), n - 1); in_puts(l); in_puts("AT+A\nAT+\nAT+B=1\n"); snprintf(l, sizeof l, "AT+%c%zu=12345678901234567890\n", 'A' + (int)((n / 2) % 3), n / 2); in_puts(l);
        sch_eager(&RS); sch_eager(&WS);
        EP.p_event_step = 50; EP.unspecified_cells = true;
        eng_run_history();
        edge_accounting();
}
/* unsolicited buffers of 0..7 bytes (separate) or a shared buffer whose event half has 6..9 bytes, names of 0..3 characters, READ and TEST events of commands
 * with and without variables / handlers: every formatting step of the event machine starts at or next to the end of its buffer */
#define N_SWEEP_D (8L * 4 * 2 * 4 * 2)
static cat_return_state tiny_policy(struct hcall *h) { if ((h->kind == K_READ || h->kind == K_TEST) && h->max > 0 && chance(50)) { h->data[0] = 0; *h->psize = 0; } return chance(50) ? CAT_RETURN_STATE_DATA_OK : CAT_RETURN_STATE_OK; }
static void sweep_tiny(long item)
{
        size_t usz = (size_t)(item % 8); item /= 8; size_t nl = (size_t)(item % 4); item /= 4; int type = (int)(item % 2); item /= 2; int shape = (int)(item % 4); item /= 4; bool shared = item & 1;
        snprintf(mode, sizeof mode, "sweep: event buffer of %zu bytes (%s), name of %zu characters, %s event, command shape %d", shared ? usz + 6 : usz, shared ? "half of a shared buffer" : "separate", nl, type ? "TEST" : "READ", shape);
        w_begin();
        struct cat_command *a = w_group(2, false);
        a[0].name = xstr(&"+EV"[3 - nl]);          /* "", "V", "EV", "+EV" */
        if (shape & 1) { struct cat_variable *v = w_vars(&a[0], 1); v->type = (shape & 2) ? CAT_VAR_BUF_STRING : CAT_VAR_UINT_DEC; uint8_t *d = w_vdata(v, 1); *d = (shape & 2) ? 0 : 7; }
        else { a[0].read = h_read; a[0].test = h_test; if (shape & 2) a[0].description = xstr(""); }
        a[1].name = xstr("+X"); a[1].run = h_run;
        if (shared) w_buffers(2 * (usz + 6) + (usz & 1), true, 0); else w_buffers(8, false, usz);
        w_init((int)(usz & 1));
        paint();
        in_reset(); in_puts("AT+X\n");
        sch_eager(&RS); sch_eager(&WS);
        eng_monitors_install();
        ENG_POLICY_OVERRIDE = tiny_policy; EP.p_handler_trigger = 0;
        for (int k = 0; k < 3; k++) {
                eng_trigger(0, type ? CAT_CMD_TYPE_TEST : CAT_CMD_TYPE_READ);
                for (int i = 0; i < 200; i++) { cat_status s = svc(); canary_check("tiny event buffer"); if (s == CAT_STATUS_OK && INPOS >= INLEN) break; }
        }
        ENG_POLICY_OVERRIDE = NULL;
        CNT("tiny_event_buffer_cases");
        edge_accounting();
}
/* a WRITE with an empty argument text, right after a line that filled the command buffer to its last byte (no NUL left in it): the bytes the decoder
 * would meet if it did not see an empty text are the per-command match states (made printable by duplicate / prefix-related names: '"', 'B', 'a', 'f' ...)
 * followed by the old line; the variable is larger than the buffer */
#define N_SWEEP_E (8L * 2 * 15 * 2 * 2)
static void sweep_empty_args(long item)
{
        int shape = (int)(item % 8); item /= 8; bool hex = item % 2; item /= 2; size_t cap = 6 + (size_t)(item % 15); item /= 15; bool shared = item % 2; item /= 2; bool crlf = item % 2;
        static const char *nm[4][4] = { { "+S", "+X", "+S", "+Y" }, { "+S", "+X", "+Y", "+SB" }, { "+SA", "+X", "+S", "+SB" }, { "+S", "+SA", "+S", "+SB" } };
        snprintf(mode, sizeof mode, "sweep: empty WRITE after a line that filled the buffer; name shape %d, %s variable of 32 bytes, capacity %zu", shape, hex ? "hex-buffer" : "string", cap);
        w_begin();
        struct cat_command *a = w_group(4, false);
        for (int i = 0; i < 4; i++) {
                const char *n = nm[shape & 3][(shape & 4) ? 3 - i : i];
                a[i].name = xstr(n);
                if (strcmp(n, "+X") == 0 || strcmp(n, "+Y") == 0 || strcmp(n, "+SA") == 0) a[i].write = h_write;
                if (strcmp(n, "+S") == 0) { struct cat_variable *v = w_vars(&a[i], 1); v->type = hex ? CAT_VAR_BUF_HEX : CAT_VAR_BUF_STRING; w_vdata(v, 32); }
        }
        w_buffers(shared ? cap * 2 : cap, shared, 8);
        w_init(1);
        paint();
        in_reset();
        in_puts((shape & 3) == 2 || (shape & 3) == 3 ? "AT+SA=" : "AT+X=");
        for (size_t i = 0; i < cap; i++) in_putc(hex ? 'A' : 'U');
        in_putc('\n');
        in_puts(crlf ? "AT+S=\r\n" : "AT+S=\n");
        in_puts("AT+S\n");
        sch_eager(&RS); sch_eager(&WS);
        EP.p_event_step = 0; EP.p_handler_trigger = 0; EP.unspecified_cells = true;
        eng_run_history();
        CNT("empty_write_after_full_buffer_cases");
        edge_accounting();
}
struct case_budget chk_budget(const char *tier)
{
        struct case_budget b = { N_SWEEP_A + N_SWEEP_C + N_SWEEP_D + N_SWEEP_E, strcmp(tier, "thorough") == 0 ? 6000000 : 90000 };
        return b;
}
void chk_run_case(uint64_t seed, long c, bool is_sweep)
{
        (void)seed;
        eng_default_profile();
        if (is_sweep) { if (c < N_SWEEP_A) sweep_bytes(c); else if (c < N_SWEEP_A + N_SWEEP_C) sweep_mincap(c - N_SWEEP_A); else if (c < N_SWEEP_A + N_SWEEP_C + N_SWEEP_D) sweep_tiny(c - N_SWEEP_A - N_SWEEP_C); else sweep_empty_args(c - N_SWEEP_A - N_SWEEP_C - N_SWEEP_D); return; }
        snprintf(mode, sizeof mode, "random history (unspecified cells included)");
        EP.unspecified_cells = true; EP.p_weird = 25; EP.p_long_line = 20; EP.p_event_step = rn(150); EP.p_cut = 20; EP.p_lookup = 40; EP.p_toggle = 30; EP.p_empty_name = 4;
        if (chance(20)) EP.max_cmds = 64;
        eng_gen_table();
        paint();
        {       /* the three lookup helpers of the public API read descriptor strings too: run them under the sanitizers (names present, absent, empty, longer than any) */
                const char *probe[4] = { W.cmd[rn(W.ncmds)]->name, "", "+NO_SUCH_NAME_THAT_IS_LONGER_THAN_ANY_REGISTERED_ONE", "N0" };
                for (int k = 0; k < 4; k++) {
                        const struct cat_command *c1 = cat_search_command_by_name(W.at, probe[k]);
                        if (c1 && strcmp(c1->name, probe[k]) != 0) viol("C03", "lookup-returned-wrong-command", "cat_search_command_by_name(\"%s\") returned \"%s\"", probe[k], c1->name);
                        (void)cat_search_command_group_by_name(W.at, probe[k]);
                        (void)cat_search_variable_by_name(W.at, W.cmd[rn(W.ncmds)], probe[k]);
                        CNT("lookup_api_calls");
                }
        }
        eng_gen_input(1 + rn(8));
        eng_random_schedules();
        eng_run_history();
        edge_accounting();
        if (sample_wanted()) { char b[300]; fmt_bytes(b, sizeof b, INB, INLEN > 90 ? 90 : INLEN); sample_printf("%zu commands, command capacity %zu, event capacity %zu (%s), input \"%s\"", W.ncmds, W.capA, W.capU, W.shared ? "shared buffer" : "separate buffers", b); }
}
int main(int argc, char **argv) { MY_PROP = "C03"; PROG_NAME = "chk_C03"; return verif_main(argc, argv); }
