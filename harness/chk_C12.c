/* C12 — behaviour does not depend on how input and output readiness are scheduled.
 * Differential monitor (no model): the same scenario is executed under the eager schedule and under a set of
 * other read/write readiness schedules; output bytes, handler trace with arguments and final variable bytes must
 * be identical (per producer, newline style of event units ignored, when events are in play).  Two online
 * assertions: after a refused write the same byte is offered again; a service call whose only callback was a
 * refused read leaves the object untouched. */
#include "engine.h"

const char *CHK_RULE = "one case = one scenario (generated table, 1..8 lines, optionally events triggered at quiescent points and holds released at a fixed logical point) "
                       "executed under the eager schedule and 5 (quick) / 10 (thorough) other schedules drawn from: Bernoulli readiness, single refusal run at every position, "
                       "input split at every byte, pairs of refusals; non-trivial = the eager run produced output and at least one refusal happened in a variant; distinct by "
                       "(scenario output hash, schedule family, refusal count)";

static prng_t HA, HU;
static bool event_mode, crfree;      /* crfree: every event is triggered when no CR is left in the input, so even the newline style of the event units is determined */
static char trace[2][1 << 15]; static size_t tn[2]; static uint64_t th[2];
static char uunits[1 << 14]; static size_t un;
static long lines_started, events_started;
static bool hold_pending; static int hold_status;
static char sched_desc[160];
/* scenario */
static uint8_t *vars0; static size_t nvarbytes;
#define MAXSEG 6
static struct { size_t in_end; int ntrig; int tci[8]; int ttype[8]; } seg[MAXSEG]; static int nseg;

static void tr(int f, const char *fmt, ...)
{
        char b[600]; va_list ap; va_start(ap, fmt); int n = vsnprintf(b, sizeof b, fmt, ap); va_end(ap);
        if (n < 0) return;
        if ((size_t)n >= sizeof b) n = sizeof b - 1;
        th[f] = hash_bytes(b, (size_t)n, th[f]);
        if (tn[f] + (size_t)n < sizeof trace[0]) { memcpy(trace[f] + tn[f], b, (size_t)n); tn[f] += (size_t)n; trace[f][tn[f]] = 0; }
}
static cat_return_state pick(prng_t *p, bool isA)
{
        unsigned r = pr_n(p, 100);
        if (r < 18) return pr_pct(p, 50) ? CAT_RETURN_STATE_NEXT : CAT_RETURN_STATE_DATA_NEXT;      /* geometric, terminates */
        if (r < 40) return CAT_RETURN_STATE_OK;
        if (r < 65) return CAT_RETURN_STATE_DATA_OK;
        if (r < 75) return CAT_RETURN_STATE_ERROR;
        if (r < 83 && isA) return CAT_RETURN_STATE_HOLD;
        if (r < 90) return CAT_RETURN_STATE_PRINT_CMD_LIST_OK;
        if (r < 95 && isA) return pr_pct(p, 50) ? CAT_RETURN_STATE_HOLD_EXIT_OK : CAT_RETURN_STATE_HOLD_EXIT_ERROR;
        if (r < 97) return (cat_return_state)(20 + (int)pr_n(p, 4));
        return CAT_RETURN_STATE_OK;
}
static cat_return_state policy(struct hcall *h)
{
        int f = h->fsm; prng_t *p = f == FSM_A ? &HA : &HU;
        if (h->kind == K_WRITE) { char hex[300]; fmt_bytes(hex, sizeof hex, h->data, h->size > 60 ? 60 : h->size); tr(f, "W%d[%zu,%zu]\"%s\"", h->ci, h->size, h->args_num, hex); }
        else if (h->kind == K_RUN) tr(f, "R%d", h->ci);
        else {
                /* inner newline of an event text follows the timing-dependent CR flag of the command FSM: compare with CRs removed */
                uint8_t raw[4200]; size_t rl = 0, ps = *h->psize;
                for (size_t q = 0; q < h->max && h->data[q] && rl < sizeof raw; q++) { if (f == FSM_U && h->data[q] == '\r') { if (ps) ps--; continue; } raw[rl++] = h->data[q]; }
                char tx[300]; fmt_bytes(tx, sizeof tx, raw, rl > 60 ? 60 : rl);
                uint64_t full = hash_bytes(raw, rl, 3); tr(f, "#%llx", (unsigned long long)full);
                tr(f, "%c%d<%s|%zu|%zu>", h->kind == K_READ ? 'D' : 'T', h->ci, tx, ps, h->max);
                if (pr_pct(p, 50) && h->max >= 12) *h->psize = (size_t)snprintf((char *)h->data, h->max, "~%u", pr_n(p, 1000));
        }
        cat_return_state c = pick(p, f == FSM_A);
        tr(f, ">%d ", (int)c);
        if (c == CAT_RETURN_STATE_HOLD) { hold_pending = true; hold_status = (int)pr_n(p, 2); }
        return c;
}
static int vpolicy(int ci, int vi, int dir, size_t ws)
{
        int f = PHASE == 1 ? FSM_U : FSM_A; prng_t *p = f == FSM_A ? &HA : &HU;
        int r = pr_pct(p, 3) ? 1 : 0;
        tr(f, "v%c%d.%d:%zu>%d ", dir ? 'w' : 'r', ci, vi, ws, r);
        return r;
}
static void on_read(size_t off, uint8_t ch)
{
        (void)ch;
        if (off == 0 || INB[off - 1] == '\n') { pr_seed(&HA, CUR_SEED * 31 + (uint64_t)CUR_CASE, (uint64_t)lines_started + 1000); lines_started++; }
}
static void on_phase(int code)
{
        if (code == 3) { pr_seed(&HU, CUR_SEED * 37 + (uint64_t)CUR_CASE, (uint64_t)events_started + 5000); events_started++; }
}
static int pend_retry[2];
static void on_write(bool isA, char c, bool ok)
{
        int p = isA ? 0 : 1;
        if (pend_retry[p] >= 0 && pend_retry[p] != (uint8_t)c) viol("C12", "retry-different-byte", "after refusing 0x%02x producer %c offered 0x%02x", pend_retry[p], isA ? 'A' : 'U', (uint8_t)c);
        pend_retry[p] = ok ? -1 : (uint8_t)c;
}
static void on_unit(bool isA, bool raw, const char *text, size_t len, bool a, bool b)
{
        (void)raw; (void)len; (void)a; (void)b;
        if (isA) return;
        for (const char *q = text; *q && un + 2 < sizeof uunits; q++) if (*q != '\r') uunits[un++] = *q;
        if (un + 2 < sizeof uunits) uunits[un++] = '|';
        uunits[un] = 0;
}

struct result { uint8_t outU[1 << 14]; size_t nU; uint8_t outA[1 << 15]; size_t nA; uint64_t th[2]; char *tr[2]; char *uu; uint8_t *vars; bool quiet; long refusals; };
static struct result base, var;
static void result_free(struct result *r) { free(r->tr[0]); free(r->tr[1]); free(r->uu); free(r->vars); memset(r, 0, sizeof *r); }

static void run_once(struct result *res, int fillmode)
{
        w_load_vars(vars0);
        w_reinit(fillmode);
        in_reset(); out_reset(); units_reset();
        tn[0] = tn[1] = 0; th[0] = th[1] = 7; trace[0][0] = trace[1][0] = 0; un = 0; uunits[0] = 0;
        lines_started = events_started = 0; hold_pending = false; pend_retry[0] = pend_retry[1] = -1;
        pr_seed(&HA, 1, 1); pr_seed(&HU, 2, 2);
        POLICY = policy; VPOLICY = vpolicy; ON_READ = on_read; ON_PHASE = on_phase; ON_WRITE = on_write; ON_UNIT = on_unit;
        long r0 = N_READ_NO + N_WRITE_NO;
        res->quiet = true;
        size_t full = seg[nseg - 1].in_end;
        for (int s = 0; s < nseg && res->quiet; s++) {
                for (int t = 0; t < seg[s].ntrig; t++) {
                        cat_status st = cat_trigger_unsolicited_event(W.at, W.cmd[seg[s].tci[t]], (cat_cmd_type)seg[s].ttype[t]);
                        if (st != CAT_STATUS_OK) viol("C13", "refused-with-room", "trigger at a quiescent point refused (%d)", (int)st);
                }
                INLEN = seg[s].in_end;
                long bound = 3000 + 60 * (long)(INLEN - INPOS + 4) * ((long)W.ncmds + 3) + 4000L * seg[s].ntrig, i;
                bool q = false;
                for (i = 0; i < bound * 8; i++) {
                        struct cat_object before; memcpy(&before, W.at, sizeof before);
                        long rn0 = N_READ_NO, ro0 = N_READ_OK, w0 = N_WRITE_OK + N_WRITE_NO, h0 = N_VCALL[0] + N_VCALL[1];
                        for (int f = 0; f < 2; f++) for (int k = 0; k < 4; k++) h0 += N_HCALL[f][k];
                        bool uidle = OBJ_FIELDS && OBJ_USTATE() == CAT_UNSOLICITED_STATE_IDLE && OBJ_UCOUNT() == 0;   /* coverage gate only */
                        cat_status st = svc();
                        long h1 = N_VCALL[0] + N_VCALL[1]; for (int f = 0; f < 2; f++) for (int k = 0; k < 4; k++) h1 += N_HCALL[f][k];
                        if (N_READ_NO == rn0 + 1 && N_READ_OK == ro0 && N_WRITE_OK + N_WRITE_NO == w0 && h1 == h0 && uidle) {
                                OBJ_EXCUSE_CURRENT_CHAR(before);
                                CNT("refused_read_steps_compared");
                                if (memcmp(&before, W.at, sizeof before) != 0) viol("C12", "refused-read-changed-state", "a service call whose only callback was a refused read modified the parser object (state %d)", OBJ_STATE());
                        }
                        if (hold_pending) { hold_pending = false; cat_hold_exit(W.at, hold_status ? CAT_STATUS_ERROR : CAT_STATUS_OK); }
                        if (st == CAT_STATUS_OK && INPOS >= INLEN) { q = true; break; }
                }
                if (!q) res->quiet = false;
        }
        INLEN = full;
        res->refusals = N_READ_NO + N_WRITE_NO - r0;
        res->nA = 0;
        for (size_t i = 0; i < OUTN && res->nA < sizeof res->outA; i++) if (OUTP[i] == 'A') res->outA[res->nA++] = OUTB[i];
        res->nU = 0;
        for (size_t i = 0; i < OUTN && res->nU < sizeof res->outU; i++) if (OUTP[i] == 'U') res->outU[res->nU++] = OUTB[i];
        res->th[0] = th[0]; res->th[1] = th[1]; res->tr[0] = strdup(trace[0]); res->tr[1] = strdup(trace[1]); res->uu = strdup(uunits);
        res->vars = malloc(nvarbytes + 1); w_save_vars(res->vars);
}

void chk_describe(FILE *f)
{
        w_describe(f);
        fprintf(f, "mode: %s; %d segment(s); schedule under test: %s\n", event_mode ? "events triggered at quiescent points (per-producer comparison)" : "no events (whole-stream comparison)", nseg, sched_desc);
        for (int s = 0; s < nseg; s++) { fprintf(f, "  segment %d: input up to offset %zu, triggers:", s, seg[s].in_end); for (int t = 0; t < seg[s].ntrig; t++) fprintf(f, " (cmd#%d,%s)", seg[s].tci[t], seg[s].ttype[t] == CAT_CMD_TYPE_READ ? "READ" : "TEST"); fprintf(f, "\n"); }
        char b[8192];
        fmt_bytes(b, sizeof b, INB, INLEN > 1500 ? 1500 : INLEN); fprintf(f, "input: \"%s\"\n", b);
        fmt_bytes(b, sizeof b, base.outA, base.nA > 1500 ? 1500 : base.nA); fprintf(f, "eager   command output: \"%s\"\n", b);
        fmt_bytes(b, sizeof b, var.outA, var.nA > 1500 ? 1500 : var.nA); fprintf(f, "variant command output: \"%s\"\n", b);
        fmt_bytes(b, sizeof b, (uint8_t *)(base.uu ? base.uu : ""), strlen(base.uu ? base.uu : "")); fprintf(f, "eager   event units: %s\n", b);
        fmt_bytes(b, sizeof b, (uint8_t *)(var.uu ? var.uu : ""), strlen(var.uu ? var.uu : "")); fprintf(f, "variant event units: %s\n", b);
        fprintf(f, "eager   command-FSM handler trace: %.3000s\nvariant command-FSM handler trace: %.3000s\n", base.tr[0] ? base.tr[0] : "", var.tr[0] ? var.tr[0] : "");
        fprintf(f, "eager   event-FSM handler trace: %.2000s\nvariant event-FSM handler trace: %.2000s\n", base.tr[1] ? base.tr[1] : "", var.tr[1] ? var.tr[1] : "");
}

static uint8_t bitsR[1 << 14], bitsW[1 << 14];
static int choose_schedule(long total_reads, long total_writes)
{
        int fam = (int)rn(5);
        memset(bitsR, 1, sizeof bitsR); memset(bitsW, 1, sizeof bitsW);
        sch_eager(&RS); sch_eager(&WS);
        switch (fam) {
        case 0: { unsigned pr = 20 + rn(80), pw = 20 + rn(80); sch_bern(&RS, pr, rnd()); sch_bern(&WS, pw, rnd()); snprintf(sched_desc, sizeof sched_desc, "Bernoulli read %u%% write %u%%", pr, pw); } break;
        case 1: { /* one refusal run in the write stream */
                static const int L[] = { 1, 2, 5, 17 }; size_t pos = rn(total_writes + 1); int len = L[rn(4)];
                for (int i = 0; i < len && pos + (size_t)i < sizeof bitsW; i++) bitsW[pos + (size_t)i] = 0;
                sch_bits(&WS, bitsW, sizeof bitsW); snprintf(sched_desc, sizeof sched_desc, "write refused %d times at write attempt %zu", len, pos); } break;
        case 2: { /* input split at one byte: reads refused for a while after k deliveries */
                size_t pos = rn(total_reads + 1); int len = 1 + (int)rn(40);
                for (int i = 0; i < len && pos + (size_t)i < sizeof bitsR; i++) bitsR[pos + (size_t)i] = 0;
                sch_bits(&RS, bitsR, sizeof bitsR); snprintf(sched_desc, sizeof sched_desc, "input split: %d refused reads after read attempt %zu", len, pos); } break;
        case 3: { /* two refusals anywhere */
                size_t a = rn(total_writes + 1), b = rn(total_writes + 2), c = rn(total_reads + 1);
                if (a < sizeof bitsW) bitsW[a] = 0;
                if (b < sizeof bitsW) bitsW[b] = 0;
                if (c < sizeof bitsR) bitsR[c] = 0;
                sch_bits(&WS, bitsW, sizeof bitsW); sch_bits(&RS, bitsR, sizeof bitsR); snprintf(sched_desc, sizeof sched_desc, "writes %zu and %zu and read %zu refused once", a, b, c); } break;
        default: { /* bursty: alternate ready / blocked phases */
                size_t i = 0; bool on = true;
                while (i < sizeof bitsW) { size_t len = 1 + rn(on ? 12 : 6); for (size_t k = 0; k < len && i < sizeof bitsW; k++, i++) { bitsW[i] = on; bitsR[i] = (uint8_t)(rn(4) != 0); } on = !on; }
                sch_bits(&WS, bitsW, sizeof bitsW); sch_bits(&RS, bitsR, sizeof bitsR); snprintf(sched_desc, sizeof sched_desc, "bursty write readiness, 75%% read readiness"); } break;
        }
        return fam;
}

/* deterministic sweep: 24 fixed scenarios x every single split point of the input (one refusal run of 7 reads at each read attempt) and
 * every single write refusal position x run length {1,2,5,17} (capped at SWEEP_PER schedule indices per scenario) */
#define SWEEP_SCEN 24
#define SWEEP_PER 700
static int sweep_schedule(long idx, long total_reads, long total_writes)
{
        memset(bitsR, 1, sizeof bitsR); memset(bitsW, 1, sizeof bitsW);
        sch_eager(&RS); sch_eager(&WS);
        if (idx < total_reads) {
                for (int i = 0; i < 7 && (size_t)(idx + i) < sizeof bitsR; i++) bitsR[idx + i] = 0;
                sch_bits(&RS, bitsR, sizeof bitsR); snprintf(sched_desc, sizeof sched_desc, "sweep: input split, 7 refused reads at read attempt %ld", idx);
                return 2;
        }
        idx -= total_reads;
        static const int L[4] = { 1, 2, 5, 17 };
        long pos = idx / 4; int len = L[idx % 4];
        if (pos >= total_writes) return -1;
        for (int i = 0; i < len && (size_t)(pos + i) < sizeof bitsW; i++) bitsW[pos + i] = 0;
        sch_bits(&WS, bitsW, sizeof bitsW); snprintf(sched_desc, sizeof sched_desc, "sweep: write refused %d times at write attempt %ld", len, pos);
        return 1;
}
struct case_budget chk_budget(const char *tier)
{
        struct case_budget b = { (long)SWEEP_SCEN * SWEEP_PER, strcmp(tier, "thorough") == 0 ? 2500000 : 80000 };
        return b;
}
void chk_run_case(uint64_t seed, long c, bool is_sweep)
{
        (void)seed;
        long sweep_idx = -1;
        if (is_sweep) { sweep_idx = c % SWEEP_PER; pr_seed(&G, 0xC12C12, (uint64_t)(c / SWEEP_PER) + 1000 * (uint64_t)QCAP); }   /* same scenario for all schedule indices of a block */
        eng_default_profile();
        event_mode = chance(40);
        if (chance(20)) EP.max_cmds = 40;
        eng_gen_table();
        if (event_mode)       /* an event's TEST text embeds a newline whose length follows the command FSM's CR flag at that moment, so whether the text fits would depend on timing: no descriptions here */
                for (size_t i = 0; i < W.ncmds; i++) W.cmd[i]->description = NULL;
        if (event_mode)       /* events print variables: keep command lines from changing what they print (that would be a legitimate timing dependence) */
                for (size_t i = 0; i < W.ncmds; i++) for (size_t j = 0; j < W.cmd[i]->var_num; j++) { struct cat_variable *v = (struct cat_variable *)&W.cmd[i]->var[j]; if (v->access == CAT_VAR_ACCESS_READ_WRITE) v->access = chance(50) ? CAT_VAR_ACCESS_READ_ONLY : CAT_VAR_ACCESS_WRITE_ONLY; }
        nvarbytes = w_total_var_bytes(); vars0 = xalloc(nvarbytes + 1); w_save_vars(vars0);
        /* input and segments */
        in_reset();
        nseg = event_mode ? 1 + (int)rn(MAXSEG) : 1;
        crfree = event_mode && nseg >= 2 && chance(40);
        for (int s = 0; s < nseg; s++) {
                unsigned nl = event_mode ? rn(3) : 1 + rn(8);
                if (crfree && s == 0) nl = 1 + rn(2);
                for (unsigned l = 0; l < nl; l++) {
                        size_t from = INLEN;
                        eng_gen_line();
                        if (crfree && s == 0 && l + 1 == nl && INLEN - from >= 2 && INB[INLEN - 2] != '\r') { INB[INLEN - 1] = '\r'; in_putc('\n'); }      /* the last line before the first events ends in CR LF */
                        if (crfree && s > 0) { size_t w = from; for (size_t r = from; r < INLEN; r++) if (INB[r] != '\r') INB[w++] = INB[r]; INLEN = w; }
                }
                seg[s].in_end = INLEN;
                seg[s].ntrig = event_mode ? (int)rn(QCAP + 1) : 0;
                if (crfree && s == 0) seg[s].ntrig = 0;
                for (int t = 0; t < seg[s].ntrig; t++) { seg[s].tci[t] = (int)rn(W.ncmds); seg[s].ttype[t] = chance(50) ? CAT_CMD_TYPE_READ : CAT_CMD_TYPE_TEST; }
        }
        static uint8_t in_copy[INCAP]; size_t in_len = INLEN; memcpy(in_copy, INB, INLEN);
        sch_eager(&RS); sch_eager(&WS); snprintf(sched_desc, sizeof sched_desc, "eager");
        long rd0 = N_READ_OK + N_READ_NO, wr0 = N_WRITE_OK + N_WRITE_NO;
        run_once(&base, 0);
        long total_reads = N_READ_OK + N_READ_NO - rd0, total_writes = N_WRITE_OK + N_WRITE_NO - wr0;
        if (!base.quiet) { inconclusive("eager run did not reach quiescence (C15's subject)"); result_free(&base); return; }
        int nvariants = is_sweep ? 1 : strcmp(TIER, "thorough") == 0 ? 10 : 5;
        long refus = 0; uint64_t fams = 0;
        for (int k = 0; k < nvariants && !case_failed(); k++) {
                memcpy(INB, in_copy, in_len);
                int fam = is_sweep ? sweep_schedule(sweep_idx, total_reads, total_writes) : choose_schedule(total_reads, total_writes);
                if (fam < 0) { CNT("sweep_indices_beyond_the_scenario"); break; }
                if (is_sweep) CNT("sweep_single_refusal_schedules");
                run_once(&var, k & 1);
                CNT("schedule_variants_run");
                DSET("refusal_patterns", hash_bytes(bitsR, 256, hash_bytes(bitsW, 512, (uint64_t)fam + RS.pct * 7 + WS.pct * 131)));
                refus += var.refusals; fams |= 1u << fam;
                if (!var.quiet) { viol("C15", "no-quiescence", "variant schedule did not reach quiescence"); }
                else if (var.nA != base.nA || memcmp(var.outA, base.outA, base.nA) != 0)
                        viol("C12", "output-differs", "command-producer output under schedule [%s] differs from the eager schedule (%zu vs %zu bytes)", sched_desc, var.nA, base.nA);
                else if (strcmp(var.uu, base.uu) != 0) viol("C12", "event-output-differs", "event units under schedule [%s] differ from the eager schedule", sched_desc);
                else if (crfree && (var.nU != base.nU || memcmp(var.outU, base.outU, base.nU) != 0)) viol("C12", "event-output-differs", "event-producer bytes (newline style included: no CR is left in the input when the events are triggered) under schedule [%s] differ from the eager schedule", sched_desc);
                else if (var.th[0] != base.th[0]) viol("C12", "handler-trace-differs", "command-FSM handler trace under schedule [%s] differs from the eager schedule", sched_desc);
                else if (var.th[1] != base.th[1]) viol("C12", "event-handler-trace-differs", "event-FSM handler trace under schedule [%s] differs from the eager schedule", sched_desc);
                else if (memcmp(var.vars, base.vars, nvarbytes) != 0) viol("C12", "final-variables-differ", "final variable bytes under schedule [%s] differ from the eager schedule", sched_desc);
                if (!case_failed()) result_free(&var);
        }
        if (base.nA > 0 && refus > 0) nontrivial(hash_u64(fams, hash_u64((uint64_t)(refus > 200 ? 200 : refus), hash_bytes(base.outA, base.nA, base.th[0]))));
        if (event_mode) CNT("scenarios_with_events"); else CNT("scenarios_without_events");
        if (crfree) CNT("scenarios_comparing_event_bytes_newline_style_included");
        if (sample_wanted()) { char b[300]; fmt_bytes(b, sizeof b, in_copy, in_len > 70 ? 70 : in_len); sample_printf("%zu commands, %s, input \"%s\": %d schedules (families mask 0x%llx, %ld refusals) all equal to eager: %zu output bytes", W.ncmds, event_mode ? "with events" : "no events", b, nvariants, (unsigned long long)fams, refus, base.nA); }
        if (!case_failed()) { result_free(&base); result_free(&var); }
}
int main(int argc, char **argv) { MY_PROP = "C12"; PROG_NAME = "chk_C12"; return verif_main(argc, argv); }
