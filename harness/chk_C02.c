/* C02 — the invoked handler is the one selected by name resolution and suffix.
 * Oracle: reference resolver (refmodel.c) evaluated per line; projection compared:
 * the multiset of command-handler callbacks per line, and "ERROR + nothing invoked"
 * when there is no / an ambiguous match or the line is malformed. */
#include "common.h"
#include "refmodel.h"

const char *CHK_RULE = "one case = one command table + 12..40 request lines, each serviced to quiescence; a line is non-trivial when it typed at least "
                       "one name character; distinct by (table size, selected index or error class, exact/prefix/implicit, request kind, typed length)";

#define NAME_ALPHA "ABCDEFGHIJKLMNOPQRSTUVWXYZ0123456789+#$@_%&"

static struct { int ci, kind; } calls[16]; static int ncalls;
static cat_return_state policy(struct hcall *h)
{
        if (ncalls < 16) { calls[ncalls].ci = h->ci; calls[ncalls].kind = h->kind; }
        ncalls++;
        return CAT_RETURN_STATE_OK;
}

static char last_line[700]; static size_t last_len;
static char descr[400];
void chk_describe(FILE *f)
{
        w_describe(f);
        char b[1400]; fmt_bytes(b, sizeof b, (const uint8_t *)last_line, last_len);
        fprintf(f, "line under test: \"%s\\n\"\n%s\n", b, descr);
        io_describe(f);
}

/* ---- table construction helpers ---- */
static uint8_t ro_byte = 5;
static void set_handlers(struct cat_command *c, int mask /* bit0 run,1 read,2 write,3 test */)
{
        c->run = (mask & 1) ? h_run : NULL; c->read = (mask & 2) ? h_read : NULL;
        c->write = (mask & 4) ? h_write : NULL; c->test = (mask & 8) ? h_test : NULL;
}
static void add_ro_var(struct cat_command *c)
{
        struct cat_variable *v = w_vars(c, 1);
        v->type = CAT_VAR_UINT_DEC; v->access = CAT_VAR_ACCESS_READ_ONLY; v->name = NULL;
        uint8_t *d = w_vdata(v, 1); *d = ro_byte;
}
static void finish_world(void)
{
        for (size_t i = 0; i < W.ncmds; i++) if (W.cmd[i]->var_num == 0) w_vars(W.cmd[i], 0);      /* no variables: var NULL or an empty table */
        if (W.ngroups < MAXGRP && chance(25)) w_noise_group(30 + rn(100));      /* a quarter of the tables with background event traffic */
        size_t maxname = 0;
        for (size_t i = 0; i < W.ncmds; i++) if (strlen(W.cmd[i]->name) > maxname) maxname = strlen(W.cmd[i]->name);
        size_t cap = w_min_cap() + maxname + 48 + rn(40);
        if (chance(25)) { cap = w_min_cap() + (chance(40) ? 0 : rn(6)); CNT("tables_on_a_minimal_command_buffer"); }      /* the typed name is never stored (two match bits per command are): a name may be longer than the whole buffer, and the table may use every state slot */
        bool shared = chance(50);
        w_buffers(shared ? cap * 2 + rn(2) : cap, shared, 16 + rn(32));
        w_init((int)rn(2));
        POLICY = policy;
        if (chance(30)) QUERY_PM = 30 + rn(150);      /* lookups and queries of the public API in the middle of lines */
}

/* ---- running one line and judging it ---- */
static void put_case_mixed(const char *s, int mode /*0 as is,1 lower,2 random*/)
{
        for (; *s; s++) {
                char ch = *s;
                bool lower = mode == 1 || (mode == 2 && chance(50));
                if (lower && ch >= 'A' && ch <= 'Z') ch = (char)(ch + 32);
                else if (mode == 2 && !lower && ch >= 'a' && ch <= 'z') ch = (char)(ch - 32);
                in_putc(ch);
        }
}
static void judge_line(void)
{
        /* input buffer holds exactly one line (with LF) */
        last_len = INLEN - 1 < sizeof last_line ? INLEN - 1 : sizeof last_line;
        memcpy(last_line, INB, last_len);
        struct ref_line r;
        ref_parse_line(INB, INLEN - 1, W.capA, &r);
        int exp_ci = -1, exp_kind = -1; bool must_error = false;
        if (r.cls == RL_ERROR) must_error = true;
        else if (r.cls == RL_REQ) {
                const struct cat_command *c = W.cmd[r.ci];
                switch (ref_gate(&r)) {
                case RG_RUN_HANDLER: exp_ci = r.ci; exp_kind = K_RUN; break;
                case RG_READ: if (c->read) { exp_ci = r.ci; exp_kind = K_READ; } break;
                case RG_WRITE: if (c->write) { exp_ci = r.ci; exp_kind = K_WRITE; } break;
                case RG_TEST: if (c->test) { exp_ci = r.ci; exp_kind = K_TEST; } break;
                default: break;
                }
        }
        snprintf(descr, sizeof descr, "reference: class=%d err=%d cmd=%d kind=%d implicit=%d exact=%d -> expect handler (cmd %d, kind %d)%s",
                 r.cls, r.err, r.ci, r.kind, r.implicit, r.exact, exp_ci, exp_kind, must_error ? ", answer ERROR" : "");
        ncalls = 0; INPOS = 0; out_reset(); units_reset();
        long before_codes = RESULT_CODES;
        if (run_quiet(quiet_bound()) < 0) { inconclusive("no quiescence within the generous bound (C15's subject)"); return; }
        CNT("lines");
        if (r.ntyped > 0) {
                uint64_t h = hash_u64(W.ncmds, 2);
                h = hash_u64((uint64_t)(r.cls == RL_REQ ? r.ci : -(long)r.err), h);
                h = hash_u64((uint64_t)(r.exact * 4 + r.implicit * 2), h); h = hash_u64((uint64_t)r.kind, h); h = hash_u64(r.ntyped, h);
                nontrivial(h);
                DSET("lane_class", hash_u64((uint64_t)((r.ci & 3) * 64 + r.cls * 16 + r.err), (uint64_t)(r.exact * 2 + r.implicit)));
        }
        if (r.cls == RL_REQ) { if (r.implicit) CNT("implicit_write_lines"); else if (r.exact) CNT("exact_match_lines"); else CNT("abbreviated_lines"); }
        if (r.cls == RL_ERROR && r.err == RE_AMBIGUOUS) CNT("ambiguous_lines");
        if (r.cls == RL_ERROR && r.err == RE_NO_MATCH) CNT("no_match_lines");
        if (exp_ci >= 0) CNT("lines_expecting_handler");
        /* verdict: projection = handler invocations (command identity, kind) */
        if (exp_ci >= 0) {
                if (ncalls != 1 || calls[0].ci != exp_ci || calls[0].kind != exp_kind) {
                        const char *key = ncalls == 0 ? "handler-not-invoked" : ncalls > 1 ? "several-handlers" : calls[0].ci != exp_ci ? "wrong-command" : "wrong-kind";
                        if (r.implicit && ncalls == 1 && calls[0].ci == exp_ci && calls[0].kind == K_TEST) key = "implicit-write-ran-test-handler";
                        viol("C02", key, "line selects (cmd#%d \"%s\", kind %d) but %d handler call(s) happened, first = (cmd#%d, kind %d)", exp_ci, W.cmd[exp_ci]->name, exp_kind, ncalls,
                             ncalls ? calls[0].ci : -1, ncalls ? calls[0].kind : -1);
                }
        } else if (ncalls != 0) {
                viol("C02", must_error ? "handler-on-unmatched-line" : "handler-of-unavailable-form", "no handler may run for this line but (cmd#%d, kind %d) was invoked", calls[0].ci, calls[0].kind);
        }
        if (must_error && !(RESULT_CODES - before_codes == 1 && LAST_CODE == 'E' && PA.units == 1))
                viol("C02", "unmatched-line-not-error", "line with no/ambiguous match or bad syntax must be answered by exactly one ERROR (codes=%ld last=%c units=%ld)",
                     RESULT_CODES - before_codes, LAST_CODE ? LAST_CODE : '-', PA.units);
        if (sample_wanted() && r.cls == RL_REQ) {
                char b[300]; fmt_bytes(b, sizeof b, INB, INLEN);
                sample_printf("table of %zu commands, line \"%s\" -> cmd#%d \"%s\" kind %d (%s)", W.ncmds, b, r.ci, W.cmd[r.ci]->name, r.kind, r.implicit ? "implicit write" : r.exact ? "exact" : "unique prefix");
        }
}
static const char *suffix_for(int k) { static const char *s[] = { "", "?", "=", "=?", "=x1", "?x", "=?x", "=?\r" }; return s[k]; }
static void line_for(const char *typed, int casemode, int sfx)
{
        in_reset();
        put_case_mixed("AT", casemode);
        put_case_mixed(typed, casemode);
        in_puts(suffix_for(sfx));
        in_putc('\n');
        judge_line();
}

/* ---- sweeps ---- */
/* (a) lanes: N commands, target at index t; neighbours share no prefix with the target */
static void sweep_lanes(long item)
{
        int N = 1, t = 0; long k = item;
        for (N = 1; N <= 40; N++) { if (k < N) { t = (int)k; break; } k -= N; }
        w_begin();
        struct cat_command *arr = w_group((size_t)N, false);
        char nm[16];
        for (int i = 0; i < N; i++) {
                if (i == t) strcpy(nm, "+TGT"); else snprintf(nm, sizeof nm, "+X%d", i);
                arr[i].name = xstr(nm); set_handlers(&arr[i], 15);
        }
        finish_world();
        for (int s = 0; s < 4; s++) { line_for("+TGT", s & 1, s); line_for("+T", 2, s); line_for("+TG", 0, s); line_for("+TGTX", 0, s); line_for("+X", 0, s); }
        snprintf(nm, sizeof nm, "+X%d", N > 1 ? (t + 1) % N : 0);
        if (N > 1) line_for(nm, 0, 0);
}
#define N_LANES (40 * 41 / 2)
/* (b) 120 registration orders of a prefix family */
static const char *family[5] = { "+T", "+TA", "+TB", "+TAB", "Z" };
static void sweep_orders(long item)
{
        int perm[5] = { 0, 1, 2, 3, 4 }; long k = item % 120; int variant = (int)(item / 120);   /* variant: 0 all enabled, 1 +TA disabled, 2 +T implicit */
        for (int i = 0; i < 5; i++) { int j = i + (int)(k % (5 - i)); k /= (5 - i); int tmp = perm[i]; perm[i] = perm[j]; perm[j] = tmp; }
        w_begin();
        struct cat_command *arr = w_group(5, false);
        for (int i = 0; i < 5; i++) {
                arr[i].name = xstr(family[perm[i]]); set_handlers(&arr[i], 15);
                if (variant == 1 && perm[i] == 1) arr[i].disable = true;
                if (variant == 2 && perm[i] == 0) { arr[i].implicit_write = true; set_handlers(&arr[i], 4); }
        }
        finish_world();
        static const char *typed[] = { "+", "+T", "+TA", "+TB", "+TAB", "+TABX", "Z", "ZZ", "+Z", "T" };
        for (size_t q = 0; q < sizeof typed / sizeof typed[0]; q++) for (int s = 0; s < 4; s++) line_for(typed[q], (int)(q + (size_t)s) % 3, s);
}
/* (c) every legal name character in first / middle / last position, typed in both cases */
static void sweep_alphabet(long item)
{
        const char *al = NAME_ALPHA; size_t na = strlen(al);
        char ch = al[(size_t)item % na]; int pos = (int)((size_t)item / na);      /* 0 first,1 middle,2 last */
        char nm[8] = "QQQ"; nm[pos] = ch;
        char lower[8]; strcpy(lower, nm); for (char *p = lower; *p; p++) if (*p >= 'A' && *p <= 'Z') *p = (char)(*p + 32);
        w_begin();
        struct cat_command *arr = w_group(3, false);
        arr[0].name = xstr("QQQQ"); set_handlers(&arr[0], 15);
        arr[1].name = xstr((item & 1) ? lower : nm); set_handlers(&arr[1], 15);      /* descriptor names may be lower case too */
        arr[2].name = xstr("QQ"); set_handlers(&arr[2], 15);
        finish_world();
        for (int s = 0; s < 4; s++) { line_for(nm, 0, s); line_for(nm, 1, s); line_for(nm, 2, s); }
        /* neighbours of the alphabet must not be name characters */
        static const char bad[] = "!\"'()*,-./:;<>[\\]^`{|}~ ";
        char t2[8]; strcpy(t2, nm); t2[pos] = bad[(size_t)item % (sizeof bad - 1)]; line_for(t2, 0, (int)(item % 4));
}
#define N_ALPHA (43 * 3)
/* (d) duplicates: same name twice, in both orders, with/without implicit write, with/without disable */
static void sweep_dups(long item)
{
        int order = (int)(item & 1), imp = (int)((item >> 1) & 1), dis = (int)((item >> 2) % 3), third = (int)(item / 12);
        w_begin();
        struct cat_command *arr = w_group(4, false);
        int a = order ? 2 : 0, b = order ? 0 : 2;
        arr[a].name = xstr("z"); set_handlers(&arr[a], 15);
        arr[b].name = xstr("Z"); if (imp) { arr[b].implicit_write = true; set_handlers(&arr[b], 4); } else set_handlers(&arr[b], 15);
        arr[1].name = xstr(third ? "ZA" : "+A"); set_handlers(&arr[1], 15);
        arr[3].name = xstr("ZB"); set_handlers(&arr[3], third == 2 ? 0 : 15);
        if (dis == 1) arr[a].disable = true; if (dis == 2) arr[b].disable = true;
        finish_world();
        static const char *typed[] = { "Z", "ZA", "ZB", "ZC", "Z1", "+A", "+" };
        for (size_t q = 0; q < 7; q++) for (int s = 0; s < 8; s++) line_for(typed[q], (int)(q + (size_t)s) % 3, s);
}
#define N_DUPS (12 * 3)

/* (e) number of prefix candidates around counter widths: K commands share the typed prefix (K around 2, 16, 64, 128, 256) */
static const int CAND_K[] = { 2, 3, 4, 15, 16, 17, 31, 32, 33, 63, 64, 65, 127, 128, 129, 254, 255, 256, 257, 258, 300 };
#define N_CAND (21 * 2)
static void sweep_candidates(long item)
{
        int K = CAND_K[item / 2]; bool last_is_candidate = item & 1;
        w_begin();
        size_t ng = 1 + (size_t)(item % 3), total = (size_t)K + (last_is_candidate ? 0 : 1);
        size_t done = 0; char nm[16];
        for (size_t g = 0; g < ng; g++) {
                size_t n = g + 1 == ng ? total - done : total / ng;
                struct cat_command *arr = w_group(n, false);
                for (size_t j = 0; j < n; j++, done++) {
                        if (done < (size_t)K) snprintf(nm, sizeof nm, "+C%03zu", done); else strcpy(nm, "+ZLAST");
                        arr[j].name = xstr(nm); set_handlers(&arr[j], 15);
                }
        }
        finish_world();
        for (int s = 0; s < 4; s++) { line_for("+C", s % 3, s); line_for("+C0", 0, s); line_for("+C00", 1, s); line_for("+C001", 2, s); line_for("+", 0, s); line_for("+Z", 0, s); }
        snprintf(nm, sizeof nm, "+C%03d", K - 1); line_for(nm, 0, 0); line_for(nm, 1, 1);
        if (K > 100) { line_for("+C1", 0, 0); line_for("+C10", 0, 1); line_for("+C2", 0, 2); line_for("+C25", 0, 3); }
}

/* (f) long names: 200 / 255 / 256 / 257 / 300 characters, typed in full, abbreviated at every interesting length, and one character too long */
static void sweep_long_names(long item)
{
        static const int LEN[] = { 200, 255, 256, 257, 300 };
        int L = LEN[item % 5]; int variant = (int)(item / 5);      /* 0: unique, 1: two names differing in the last character, 2: second one is a proper prefix of the first */
        static char n1[320], n2[320], t[330];
        for (int i = 0; i < L; i++) n1[i] = (char)("+ABCDEFGH0123"[i % 13]); n1[L] = 0; n1[0] = '+';
        strcpy(n2, n1);
        if (variant == 1) n2[L - 1] = n1[L - 1] == 'Z' ? 'Y' : 'Z'; else if (variant == 2) n2[L - 3] = 0; else strcpy(n2, "+OTHER");
        w_begin();
        struct cat_command *arr = w_group(3, false);
        arr[0].name = xstr("+Q"); set_handlers(&arr[0], 15);
        arr[1].name = xstr(n1); set_handlers(&arr[1], 15);
        arr[2].name = xstr(n2); set_handlers(&arr[2], 15);
        finish_world();
        for (int s = 0; s < 4; s++) {
                line_for(n1, s % 3, s); line_for(n2, (s + 1) % 3, s);
                strcpy(t, n1); t[L - 1] = 0; line_for(t, 0, s);                       /* one short */
                strcpy(t, n1); t[L - 4] = 0; line_for(t, 1, s);                       /* abbreviated before the two names part */
                strcpy(t, n1); strcat(t, "A"); line_for(t, 0, s);                     /* one too long */
                strcpy(t, n1); t[255 < L ? 255 : L / 2] = 0; line_for(t, 2, s); strcpy(t, n1); t[256 < L ? 256 : L / 3] = 0; line_for(t, 0, s);
        }
}
#define N_LONG 15
/* (g) descriptor flags are booleans: an application may store any non-zero value in them (cfg & 0x02, a counter, -1) */
#define N_FLAGV (6 * 4)
static void sweep_flag_values(long item)
{
        static const int vals[6] = { 2, 4, 16, 128, 256, -2 };
        volatile int v = vals[item % 6]; int which = (int)(item / 6);
        w_begin();
        struct cat_command *arr = w_group(3, false);
        arr[0].name = xstr(which == 1 ? "D" : "+A"); arr[1].name = xstr(which == 1 ? "+B" : "+A"); arr[2].name = xstr("+Z"); arr[2].run = h_run;
        set_handlers(&arr[0], 15); set_handlers(&arr[1], 15);
        if (which == 0) arr[0].disable = v;                     /* the disabled one is invisible: the enabled duplicate behind it is selected */
        else if (which == 1) { arr[0].implicit_write = v; set_handlers(&arr[0], 4); }
        else if (which == 2) arr[0].only_test = v;
        else { W.grp[0]->disable = v; struct cat_command *b = w_group(1, false); b[0].name = xstr("+A"); set_handlers(&b[0], 15); }      /* the whole first group is invisible */
        snprintf(descr, sizeof descr, "sweep: flag %d of the first command / group set to the value %d", which, (int)v);
        finish_world();
        CNT("flag_value_cases");
        bool bad = which == 0 ? !arr[0].disable : which == 1 ? !arr[0].implicit_write : which == 2 ? !arr[0].only_test : !W.grp[0]->disable;
        if (bad) { viol("C02", "flag-value-lost", "descriptor flag %d was assigned the non-zero value %d and reads back as false: name resolution would ignore it", which, (int)v); return; }
        line_for(which == 1 ? "D12" : "+A", 0, 0);
        if (!case_failed()) line_for(which == 1 ? "D" : "+A", 1, which == 1 ? 0 : 1);
}

/* ---- random tables ---- */
static void random_case(void)
{
        w_begin();
        size_t ng = chance(15) ? 4 + rn(MAXGRP - 5) : 1 + rn(3);          /* up to 14 groups (plus the noise group) */
        size_t ncmd = chance(15) ? ng + rn(300 - (unsigned)ng) : chance(50) ? ng + rn(12) : ng + rn(60);
        size_t per[MAXGRP] = { 0 };
        for (size_t g = 0; g < ng; g++) per[g] = 1;
        for (size_t i = ng; i < ncmd; i++) per[rn(ng)]++;
        const char *al = NAME_ALPHA; unsigned asz = 2 + rn(4), aoff = rn((unsigned)strlen(al) - asz);
        static char names[MAXCMD][12];
        size_t k = 0;
        for (size_t g = 0; g < ng; g++) {
                struct cat_command *arr = w_group(per[g], chance(12));
                for (size_t j = 0; j < per[g]; j++, k++) {
                        unsigned n = 1 + rn(ncmd > 40 ? 6 : 4);
                        for (unsigned q = 0; q < n; q++) { char ch = al[aoff + rn(asz)]; if (chance(25) && ch >= 'A' && ch <= 'Z') ch = (char)(ch + 32); names[k][q] = ch; }
                        names[k][n] = 0;
                        if (k > 0 && chance(15)) { strcpy(names[k], names[rn(k)]); if (chance(50) && strlen(names[k]) < 9) strcat(names[k], "A"); }
                        struct cat_command *c = &arr[j];
                        c->name = xstr(names[k]);
                        c->implicit_write = chance(7); c->disable = chance(10); c->only_test = chance(5);
                        if (c->implicit_write) set_handlers(c, chance(90) ? 4 : 0);
                        else { unsigned r = rn(10); set_handlers(c, r < 7 ? 15 : r < 8 ? 0 : (int)rn(16)); }
                        if (chance(12)) add_ro_var(c);
                }
        }
        finish_world();
        unsigned nlines = 12 + rn(28);
        for (unsigned l = 0; l < nlines; l++) {
                in_reset();
                if (chance(4)) in_putc('\r');
                put_case_mixed("AT", 2);
                const char *nm = names[rn(ncmd)]; size_t L = strlen(nm);
                size_t take = chance(55) ? L : rn(L + 1);
                for (size_t q = 0; q < take; q++) { char ch = nm[q]; if (chance(40)) ch = (char)((ch >= 'A' && ch <= 'Z') ? ch + 32 : (ch >= 'a' && ch <= 'z') ? ch - 32 : ch);
                        if (chance(2) && !((ch >= 'A' && ch <= 'Z') || (ch >= 'a' && ch <= 'z')) && (ch ^ 0x20) != '\n' && (ch ^ 0x20) != '\r' && (ch ^ 0x20) != 0) { ch = (char)(ch ^ 0x20); CNT("typed_names_with_the_case_bit_twin_of_a_non_letter"); }      /* only letters have a lower case: '_' and DEL, '+' and VT, '0' and DLE ... differ in the same bit */
                        in_putc(ch); if (chance(2)) in_putc('\r'); }
                if (chance(10)) in_putc(al[aoff + rn(asz)]);
                if (chance(1)) in_putc("!.*-/ "[rn(6)]);
                unsigned s = rn(10);
                if (s < 3) {} else if (s < 5) in_putc('?');
                else if (s < 8) { in_putc('='); unsigned n = rn(5); for (unsigned q = 0; q < n; q++) in_putc("aZ?=1,\r"[rn(7)]); }
                else if (s < 9) in_puts(chance(80) ? "=?" : "=\r?");
                else { unsigned n = rn(4); for (unsigned q = 0; q < n; q++) in_putc("aZ?=1"[rn(5)]); }
                if (chance(25)) in_putc('\r');
                in_putc('\n');
                judge_line();
                if (case_failed()) return;
        }
}

const char *PROP = "C02";
struct case_budget chk_budget(const char *tier)
{
        struct case_budget b = { N_LANES + 360 + N_ALPHA + N_DUPS + N_CAND + N_LONG + N_FLAGV, 0 };
        b.random = strcmp(tier, "thorough") == 0 ? 8000000 : 150000;
        return b;
}
void chk_run_case(uint64_t seed, long c, bool is_sweep)
{
        (void)seed;
        descr[0] = 0; last_len = 0;
        if (is_sweep) {
                if (c < N_LANES) sweep_lanes(c);
                else if ((c -= N_LANES) < 360) sweep_orders(c);
                else if ((c -= 360) < N_ALPHA) sweep_alphabet(c);
                else if ((c -= N_ALPHA) < N_DUPS) sweep_dups(c);
                else if ((c -= N_DUPS) < N_CAND) sweep_candidates(c);
                else if ((c -= N_CAND) < N_LONG) sweep_long_names(c);
                else sweep_flag_values(c - N_LONG);
        } else random_case();
}
int main(int argc, char **argv) { MY_PROP = "C02"; PROG_NAME = "chk_C02"; return verif_main(argc, argv); }
