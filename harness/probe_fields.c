/* configure-style probe (run.py): does struct cat_object still have the fields the structural invariants of common.c (and the coverage accounting / raw object comparisons of engine.c, chk_C12.c, chk_C16.c) look at?
 * If this file does not compile, the harness is built with -DVERIF_NO_OBJECT_INVARIANTS: a tree that renamed or removed one of these
 * fields must not make every check fail to build. */
#include "cat.h"
int probe(struct cat_object *o)
{
        struct cat_unsolicited_fsm *u = &o->unsolicited_fsm;
        return (o->desc != 0) + (o->io != 0) + (int)o->commands_num + (int)o->state + (o->cmd != 0) + (u->cmd != 0)
               + (int)u->unsolicited_cmd_buffer_head + (int)u->unsolicited_cmd_buffer_tail + (int)u->unsolicited_cmd_buffer_items_count
               + (u->unsolicited_cmd_buffer[0].cmd != 0) + (int)u->unsolicited_cmd_buffer[0].type + (int)u->state + (int)o->current_char;
}
