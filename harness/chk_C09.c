/* C09 — disabled, test-only or handler-less commands are never executed.
 * Oracle: reference resolver + gating (refmodel.c) evaluated on the flag values in force for each line;
 * monitors: callback log (command handlers and variable callbacks), variable snapshots of every gated command,
 * names printed by the command list. */
#include "common.h"
#include "refmodel.h"

const char *CHK_RULE = "one case = one history: a table with prefix-related names in 1..3 groups, 10..40 request lines of all five forms (explicit, abbreviated, implicit) and the "
                       "command-list request; between lines (parser quiescent) a random subset of command and group disable flags is flipped, including re-enabling; non-trivial = "
                       "a line typed a name that matches (exactly or as prefix) at least one currently disabled command; distinct by (table size, flag vector hash, line class, "
                       "selected command)";

static struct { int ci, kind; bool var; } cb[32]; static int ncb; static int last_served = -1; static int chain_left;
static cat_return_state policy(struct hcall *h)
{
        if (ncb < 32) { cb[ncb].ci = h->ci; cb[ncb].kind = h->kind; cb[ncb].var = false; } ncb++;
        if (h->fsm == FSM_A) last_served = h->ci;
        if (h->kind == K_RUN && strcmp(h->cmd->name, "#H") == 0) return CAT_RETURN_STATE_PRINT_CMD_LIST_OK;
        if ((h->kind == K_READ || h->kind == K_TEST) && chain_left > 0 && chance(35)) {      /* answers in several parts, some of them empty: every part is another call of the same handler of the same command */
                chain_left--; CNT("handler_chains");
                if (chance(50)) return CAT_RETURN_STATE_NEXT;
                if (chance(50) && h->max > 0) { h->data[0] = 0; *h->psize = 0; CNT("empty_response_parts"); }
                return CAT_RETURN_STATE_DATA_NEXT;
        }
        return (h->kind == K_READ || h->kind == K_TEST) && chance(50) ? CAT_RETURN_STATE_DATA_OK : CAT_RETURN_STATE_OK;
}
static int vpolicy(int ci, int vi, int dir, size_t ws) { (void)vi; (void)ws; if (ncb < 32) { cb[ncb].ci = ci; cb[ncb].kind = dir; cb[ncb].var = true; } ncb++; return 0; }
static char listed[64][24]; static int nlisted;
static void on_unit(bool isA, bool raw, const char *text, size_t len, bool a, bool b)
{
        (void)isA; (void)len; (void)a; (void)b;
        if (!raw) return;
        const char *p = text; while (*p == '\r' || *p == '\n') p++;
        if (p[0] != 'A' || p[1] != 'T') return;
        p += 2; size_t n = strcspn(p, "\r\n");
        if (nlisted < 64 && n < sizeof listed[0]) { memcpy(listed[nlisted], p, n); listed[nlisted][n] = 0; nlisted++; }
}
static char note[400]; static char last_line[200];
void chk_describe(FILE *f) { w_describe(f); fprintf(f, "line: \"%s\"\n%s\n", last_line, note); io_describe(f); }

static uint8_t *varsnap; static size_t nvb;
static void judge_line(void)
{
        struct ref_line r; ref_parse_line(INB, INLEN - 1, W.capA, &r);
        fmt_bytes(last_line, sizeof last_line, INB, INLEN > 60 ? 60 : INLEN);
        int gate = r.cls == RL_REQ ? ref_gate(&r) : RG_ERROR;
        snprintf(note, sizeof note, "reference: class %d err %d cmd %d kind %d implicit %d gate %d", r.cls, r.err, r.ci, r.kind, r.implicit, gate);
        ncb = 0; nlisted = 0; chain_left = 3; out_reset(); units_reset(); w_save_vars(varsnap);
        if (run_quiet(quiet_bound()) < 0) { inconclusive("no quiescence (C15's subject)"); return; }
        CNT("lines");
        /* does the typed name touch a disabled command? (evidence) */
        bool touches_disabled = false;
        for (size_t i = 0; i < W.ncmds && r.ntyped; i++) if (!cmd_enabled((int)i)) { const char *nm = W.cmd[i]->name; size_t k = 0; while (k < r.ntyped && nm[k] && ((nm[k] >= 'a' && nm[k] <= 'z') ? nm[k] - 32 : nm[k]) == r.typed[k]) k++; if (k == r.ntyped || nm[k] == 0) touches_disabled = true; }
        if (touches_disabled) { CNT("lines_touching_a_disabled_command"); uint64_t h = hash_u64(W.ncmds, 9); for (size_t i = 0; i < W.ncmds; i++) h = hash_u64((uint64_t)cmd_enabled((int)i), h); nontrivial(hash_u64((uint64_t)(r.cls * 1000 + r.err * 100 + (r.ci + 1) * 4 + (r.kind & 3)), h)); }
        /* 1. callbacks */
        int allowed = (r.cls == RL_REQ && gate != RG_ERROR) ? r.ci : -1;
        for (int k = 0; k < ncb && k < 32; k++) {
                int ci = cb[k].ci;
                if (ci >= 0 && !cmd_enabled(ci)) { viol("C09", "disabled-command-executed", "%s of disabled cmd#%d \"%s\" ran", cb[k].var ? "a variable callback" : "a handler", ci, W.cmd[ci]->name); return; }
                if (ci != allowed) { viol("C09", allowed < 0 ? "callback-on-refused-line" : "wrong-command-selected", "callback of cmd#%d ran; the reference over the enabled commands selects %d", ci, allowed); return; }
                if (!cb[k].var && cb[k].kind != r.kind) { viol("C09", W.cmd[ci]->only_test ? "test-only-ran-other-handler" : "wrong-handler-kind", "handler kind %d ran for a request of kind %d on cmd#%d", cb[k].kind, r.kind, ci); return; }
        }
        if (allowed >= 0) {
                const struct cat_command *c = W.cmd[allowed];
                bool want_handler = (r.kind == K_RUN) || (r.kind == K_READ && c->read) || (r.kind == K_TEST && c->test) || (r.kind == K_WRITE && c->write && !ref_writable(c));
                bool have = false; for (int k = 0; k < ncb && k < 32; k++) if (!cb[k].var) have = true;
                if (want_handler && !have) { viol("C09", "enabled-command-not-executed", "request for enabled cmd#%d kind %d did not reach its handler (a disabled neighbour interfered?)", allowed, r.kind); return; }
                CNT("lines_executed");
        }
        /* 2. refused lines answer exactly one ERROR */
        if ((r.cls == RL_ERROR || (r.cls == RL_REQ && gate == RG_ERROR)) && !(RESULT_CODES == 1 && LAST_CODE == 'E' && PA.units == 1)) {
                viol("C09", "refused-form-not-error", "line must be refused with one ERROR: %ld codes (last %c), %ld units", RESULT_CODES, LAST_CODE ? LAST_CODE : '-', PA.units); return; }
        if (r.cls == RL_REQ && gate == RG_ERROR) CNT("lines_refused_by_gating");
        /* 3. variables of gated commands (and of every command not selected) are untouched */
        { uint8_t *now = malloc(nvb + 1); w_save_vars(now); const uint8_t *p = varsnap, *q = now;
          for (size_t i = 0; i < W.ncmds; i++) for (size_t j = 0; j < W.cmd[i]->var_num; j++) { size_t n = W.cmd[i]->var[j].data_size; if ((int)i != allowed && memcmp(p, q, n) != 0) { viol("C09", cmd_enabled((int)i) ? "unselected-command-variable-changed" : "disabled-command-variable-changed", "variable %zu of cmd#%zu changed although the line does not select it", j, i); free(now); return; } p += n; q += n; }
          free(now); }
        /* 4. a listing never mentions a gated command */
        for (int k = 0; k < nlisted; k++) {
                static const char *sfx[4] = { "", "?", "=", "=?" }; bool ok = false;
                for (size_t i = 0; i < W.ncmds && !ok; i++) for (int f = 0; f < 4 && !ok; f++) { char e[40]; snprintf(e, sizeof e, "%s%s", W.cmd[i]->name, sfx[f]); if (strcmp(e, listed[k]) == 0 && ref_form_accepted((int)i, f)) ok = true; }
                CNT("list_lines_checked");
                if (!ok) { viol("C09", "list-mentions-gated-command", "the command list printed \"AT%s\" which no enabled command offers", listed[k]); return; }
        }
        if (sample_wanted() && touches_disabled) { int nd = 0; for (size_t i = 0; i < W.ncmds; i++) nd += !cmd_enabled((int)i); sample_printf("%zu commands (%d currently disabled), line \"%s\" -> reference selects %d (gate %d); %d callback(s), all of that command", W.ncmds, nd, last_line, allowed, gate, ncb); }
}

static const char AL[] = "+ATB#Z9";
struct case_budget chk_budget(const char *tier)
{
        struct case_budget b = { 0, strcmp(tier, "thorough") == 0 ? 3000000 : 80000 };
        return b;
}
void chk_run_case(uint64_t seed, long c, bool is_sweep)
{
        (void)seed; (void)c; (void)is_sweep; note[0] = 0; last_line[0] = 0; last_served = -1;
        w_begin();
        size_t ng = chance(15) ? 4 + rn(MAXGRP - 5) : 1 + rn(3), ncmd = ng + (chance(15) ? rn(100) : rn(10));
        size_t per[MAXGRP] = { 0 }; for (size_t g = 0; g < ng; g++) per[g] = 1; for (size_t i = ng; i < ncmd; i++) per[rn(ng)]++;
        unsigned asz = 2 + rn(3), aoff = rn((unsigned)sizeof AL - 1 - asz);
        size_t k = 0; static char names[MAXCMD][12];
        for (size_t g = 0; g < ng; g++) {
                struct cat_command *arr = w_group(per[g] + (g == ng - 1 ? 1 : 0), chance(20));
                for (size_t j = 0; j < per[g]; j++, k++) {
                        unsigned n = 1 + rn(4); for (unsigned q = 0; q < n; q++) names[k][q] = AL[aoff + rn(asz)]; names[k][n] = 0;
                        if (k > 0 && chance(20)) { strcpy(names[k], names[rn(k)]); if (chance(60) && strlen(names[k]) < 9) strcat(names[k], chance(50) ? "A" : "+"); }
                        struct cat_command *cm = &arr[j]; cm->name = xstr(names[k]);
                        cm->implicit_write = chance(8); cm->disable = chance(15); cm->only_test = chance(15);
                        unsigned hm = chance(60) ? 15 : rn(16); if (cm->implicit_write) hm &= 4;
                        cm->run = (hm & 1) ? h_run : NULL; cm->read = (hm & 2) ? h_read : NULL; cm->write = (hm & 4) ? h_write : NULL; cm->test = (hm & 8) ? h_test : NULL;
                        if (chance(50)) { unsigned nv = 1 + rn(2); struct cat_variable *v = w_vars(cm, nv); for (unsigned q = 0; q < nv; q++) { v[q].type = CAT_VAR_UINT_DEC; v[q].access = (cat_var_access)rn(3); uint8_t *d = w_vdata(&v[q], 1); *d = (uint8_t)rn(200); v[q].read = hv_read; v[q].write = hv_write; } }
                }
                if (g == ng - 1) { struct cat_command *h = &arr[per[g]]; h->name = xstr("#H"); h->run = h_run; strcpy(names[k], "#H"); k++; }
        }
        ncmd = k;
        if (chance(25)) w_noise_group(30 + rn(100));
        size_t cap = w_min_cap() + 40 + rn(40); bool shared = chance(50);
        w_buffers(shared ? cap * 2 : cap, shared, 32);
        w_init((int)rn(2));
        POLICY = policy; VPOLICY = vpolicy; ON_UNIT = on_unit;
        if (chance(40)) QUERY_PM = 40 + rn(200);      /* lookups and queries of the public API in the middle of lines */
        nvb = w_total_var_bytes(); varsnap = xalloc(nvb + 1);
        unsigned nlines = 10 + rn(30);
        for (unsigned l = 0; l < nlines && !case_failed(); l++) {
                /* flag changes between lines, parser quiescent */
                if (chance(40)) { unsigned nf = 1 + rn(3); for (unsigned q = 0; q < nf; q++) { if (chance(25)) { struct cat_command_group *g = W.grp[rn(W.ngroups)]; if (!g->disable && chance(50)) continue; g->disable = !g->disable; CNT("group_flag_flips"); } else { struct cat_command *cm = W.cmd[rn(W.ncmds)]; if (!cm->disable && chance(60)) continue; cm->disable = !cm->disable; CNT("command_flag_flips"); } } }
                if (last_served >= 0 && (size_t)last_served < W.ncmds && chance(15)) {       /* the application switches off exactly what it has just served (a one-shot command) */
                        if (chance(70)) { if (!W.cmd[last_served]->disable) { W.cmd[last_served]->disable = true; CNT("command_flag_flips"); } }
                        else if (!W.grp[W.grp_of[last_served]]->disable) { W.grp[W.grp_of[last_served]]->disable = true; CNT("group_flag_flips"); }
                        CNT("commands_disabled_right_after_being_served");
                }
                in_reset();
                if (chance(8)) in_puts("AT#H");
                else if (chance(7)) {       /* lines from terminal practice that no command-table grammar produces ("A/" repeats the last command on a Hayes modem, ';' chains commands, ...) */
                        unsigned form = rn(3);
                        if (form == 1) { in_puts("AT"); in_puts(names[rn(ncmd)]); }
                        in_puts(LORE[chance(50) ? 1 + rn(3) : rn(N_LORE)]);
                        if (form == 2) { in_puts(chance(50) ? "AT" : ""); in_puts(names[rn(ncmd)]); }
                        CNT("lines_with_terminal_lore_sequences");
                }
                else {
                        in_puts(chance(50) ? "AT" : "at");
                        const char *nm = names[rn(ncmd)]; size_t L = strlen(nm), take = chance(55) ? L : rn(L + 1);
                        for (size_t q = 0; q < take; q++) { char ch = nm[q]; if (chance(30) && ch >= 'A' && ch <= 'Z') ch = (char)(ch + 32); in_putc(ch); }
                        if (chance(8)) in_putc(AL[aoff + rn(asz)]);
                        unsigned s = rn(10);
                        if (s < 3) {} else if (s < 5) in_putc('?'); else if (s < 8) { in_putc('='); if (chance(70)) { char t[16]; snprintf(t, sizeof t, "%u", rn(300)); in_puts(t); if (chance(40)) { in_putc(','); snprintf(t, sizeof t, "%u", rn(300)); in_puts(t); } } else in_puts("x?"); }
                        else if (s < 9) in_puts("=?"); else { char t[8]; snprintf(t, sizeof t, "%u", rn(99)); in_puts(t); }
                }
                if (chance(25)) in_putc('\r');
                in_putc('\n');
                judge_line();
        }
}
int main(int argc, char **argv) { MY_PROP = "C09"; PROG_NAME = "chk_C09"; return verif_main(argc, argv); }
