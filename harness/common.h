/* Shared infrastructure of the cAT runtime-verification harness.
 *
 * Everything here is plumbing: PRNG, exact-size allocation with canaries,
 * descriptor ("world") construction, scheduled io callbacks, producer
 * attribution through the CAT_VERIF hook, output-unit tracking, event log,
 * counters / distinct sets, violation records and the case driver.
 * Property oracles live in the chk_*.c programs (and refmodel.c / engine.c).
 */
#ifndef VERIF_COMMON_H
#define VERIF_COMMON_H

#include <stdio.h>
#include <stdlib.h>
#include <string.h>
#include <stdint.h>
#include <stdbool.h>
#include <stdarg.h>
#include "cat.h"

#if defined(__SANITIZE_ADDRESS__)
#define VERIF_ASAN 1
#elif defined(__has_feature)
#if __has_feature(address_sanitizer) || __has_feature(memory_sanitizer)
#define VERIF_ASAN 1
#endif
#endif
#ifndef VERIF_ASAN
#define VERIF_ASAN 0
#endif

/* MemorySanitizer builds leave the parser object and the working buffers uninitialised on purpose (that is what MSan is for);
 * harness monitors that compare raw object / buffer bytes would then themselves read uninitialised memory, so they are off there */
#ifdef VERIF_MSAN
#define RAW_COMPARES 0
#else
#define RAW_COMPARES 1
#endif

#define QCAP ((int)CAT_UNSOLICITED_CMD_BUFFER_SIZE)

/* ------------------------------------------------------------------ PRNG */
typedef struct { uint64_t s; } prng_t;
void pr_seed(prng_t *p, uint64_t a, uint64_t b);
uint64_t pr_next(prng_t *p);
unsigned pr_n(prng_t *p, unsigned n);          /* uniform in [0,n) ; 0 when n==0 */
bool pr_pct(prng_t *p, unsigned pct);
extern prng_t G;                               /* scenario generator stream */
#define rnd() pr_next(&G)
#define rn(n) pr_n(&G, (unsigned)(n))
#define chance(p) pr_pct(&G, (unsigned)(p))

/* ------------------------------------------------------ case bookkeeping */
extern const char *MY_PROP;       /* property this program decides, e.g. "C01" */
extern const char *PROG_NAME;     /* chk_xxx */
extern bool SAN_REPLAY;           /* running as part of C03: only C03 findings count */
extern bool VERBOSE;
extern uint64_t CUR_SEED;
extern long CUR_CASE;
extern long CUR_STEP;             /* service-call index inside the case */
extern const char *TIER;          /* "quick" / "thorough" */

/* a check program provides these */
struct case_budget { long sweep; long random; };
struct case_budget chk_budget(const char *tier);      /* cases for this build variant */
void chk_run_case(uint64_t seed, long c, bool is_sweep); /* c < sweep: deterministic item, else random */
void chk_describe(FILE *f);                            /* print the current scenario (replay / samples) */
extern const char *CHK_RULE;                           /* evidence "rule" text */

int verif_main(int argc, char **argv);
void verif_case_reset(void);
extern bool ABORT_ON_VIOL;
extern const uint8_t *FUZZ_DATA; extern size_t FUZZ_LEN, FUZZ_POS;

/* violation of property `prop`, stable classification `key` */
void viol(const char *prop, const char *key, const char *fmt, ...) __attribute__((format(printf, 3, 4)));
bool case_failed(void);          /* a violation of MY_PROP was recorded in the current case */
void inconclusive(const char *why);

/* counters / distinct sets / samples */
int ctr_slot(const char *name);
extern long long CTR[];
/* name must be a string literal: the slot is looked up once per call site */
#define CNT(name) do { (void)sizeof("" name); static int _s = -1; if (_s < 0) _s = ctr_slot(name); CTR[_s]++; } while (0)
#define CNTN(name, n) do { (void)sizeof("" name); static int _s = -1; if (_s < 0) _s = ctr_slot(name); CTR[_s] += (long long)(n); } while (0)
long long ctr_get(const char *name);
int dset_slot(const char *name);
void dset_add_slot(int slot, uint64_t h);
#define DSET(name, h) do { static int _s = -1; if (_s < 0) _s = dset_slot(name); dset_add_slot(_s, (uint64_t)(h)); } while (0)
void nontrivial(uint64_t h);                  /* distinct_nontrivial signature of this case */
uint64_t hash_bytes(const void *p, size_t n, uint64_t h);
uint64_t hash_u64(uint64_t v, uint64_t h);
void sample_printf(const char *fmt, ...) __attribute__((format(printf, 1, 2)));  /* at most a few kept */
bool sample_wanted(void);

/* ---------------------------------------------------------------- memory */
void *xalloc(size_t n);        /* exactly n bytes; canary behind it in non-ASan builds */
char *xstr(const char *s);
void xfree_all(void);
void canary_check(const char *where);   /* viol C03 if a canary changed */
extern const char *CANARY_PROP;         /* additionally reported under this property (C05: "no byte at or beyond data_size") */

/* ----------------------------------------------------------------- world */
#define MAXCMD 320
#define MAXGRP 16
#define MAXVAR 8

enum { K_RUN = 0, K_READ = 1, K_WRITE = 2, K_TEST = 3 };
enum { FSM_A = 0, FSM_U = 1 };

struct world {
        struct cat_object *at;
        struct cat_descriptor *desc;
        struct cat_command_group **gptr;
        struct cat_command_group *grp[MAXGRP];
        size_t ngroups;
        struct cat_command *cmd[MAXCMD];     /* registration order */
        int grp_of[MAXCMD];
        size_t ncmds;
        uint8_t *buf, *ubuf;
        size_t bufsz, ubufsz;
        bool shared;
        size_t capA, capU;                   /* capacity of each FSM's buffer */
        uint8_t *bufA, *bufU;
        bool use_mutex;
        int fillmode;
};
extern struct world W;

void w_begin(void);                                          /* drop previous world */
extern unsigned POOL_PCT;                                    /* share of worlds whose group arrays are carved, back to back, from one backing array */
extern const char *const LORE[]; extern const unsigned N_LORE; /* byte sequences with a meaning in terminal / modem practice (byte order marks, "A/", ";", "+++", telnet and ANSI sequences) */
extern bool NEXT_WORLD_USE_MUTEX;                            /* the next world is initialised with the mock mutex interface */
struct cat_command *w_group(size_t ncmd, bool disable);      /* returns the group's zeroed command array */
void w_group_view(struct cat_command *arr, size_t ncmd, bool disable);   /* second registration of (a prefix of) another group's array */
struct cat_variable *w_vars(struct cat_command *c, size_t nv);
extern unsigned EMPTY_TABLE_PM;                              /* per-mille of w_vars(c, 0) calls that leave var pointing at an empty table instead of NULL */
void *w_vdata(struct cat_variable *v, size_t size);          /* exact-size storage */
void w_buffers(size_t bufsz, bool shared, size_t ubufsz);
void w_init(int fillmode);                                   /* allocate object (0: zero, 1: garbage fill) + cat_init */
void w_reinit(int fillmode);                                 /* fresh object on the same descriptor (3: cat_init on the same, used object) */
extern unsigned PRELIFE_PCT, SHADOW_PCT;                     /* share of garbage-filled objects that were a different parser before / of worlds that run next to a second parser instance */
void shadow_step(void);
int cmd_index(const struct cat_command *c);
bool cmd_enabled(int i);
int var_locate(const struct cat_variable *v, int *vi);       /* returns command index */
size_t w_total_var_bytes(void);
void w_save_vars(uint8_t *dst);
void w_load_vars(const uint8_t *src);
size_t w_min_cap(void);                                      /* smallest legal command capacity for this table */

/* -------------------------------------------------------------------- io */
enum { SCH_EAGER = 0, SCH_BERNOULLI = 1, SCH_BITS = 2, SCH_PERIODIC = 3 };
struct sched {
        int mode; unsigned pct; prng_t pr;
        const uint8_t *bits; size_t nbits, pos;      /* SCH_BITS: 1 = ready; eager once exhausted */
};
extern struct sched RS, WS;
void sch_eager(struct sched *s);
void sch_bern(struct sched *s, unsigned pct, uint64_t seed);
void sch_bits(struct sched *s, const uint8_t *bits, size_t n);
void sch_periodic(struct sched *s, unsigned period, unsigned phase);   /* ready when service-call number % period == phase */

#define INCAP (1u << 16)
#define OUTCAP (1u << 18)
extern uint8_t INB[INCAP]; extern size_t INLEN, INPOS;
extern uint8_t OUTB[OUTCAP]; extern char OUTP[OUTCAP]; extern size_t OUTN;   /* OUTP: 'A' / 'U' producer */
extern bool READ_GATE;               /* false: every read refused (probe) */
extern int PHASE;                    /* 0 outside cat_service, 1 event step, 2 command step */
extern long N_READ_OK, N_READ_NO, N_WRITE_OK, N_WRITE_NO;
void in_reset(void);
void in_put(const void *p, size_t n);
void in_puts(const char *s);
void in_putc(int c);
void out_reset(void);
extern struct cat_io_interface IO;
extern struct cat_mutex_interface MUTEX;

/* hooks a check may install (all optional) */
extern void (*ON_READ)(size_t off, uint8_t ch);          /* just before a byte is delivered */
extern void (*ON_READ_REFUSED)(void);
extern void (*ON_WRITE)(bool isA, char c, bool accepted);
extern void (*ON_UNIT)(bool isA, bool raw, const char *text, size_t len, bool crlf_lead, bool crlf_trail);  /* unit completed */
extern void (*ON_PHASE)(int code);                       /* codes 0..4 from the source hook */

/* mutex mock */
extern int MX_DEPTH; extern long MX_LOCKS, MX_UNLOCKS;
extern long MX_FAIL_LOCK_AT, MX_FAIL_UNLOCK_AT;          /* -1: never; else fail the k-th call (0-based) */
extern bool MX_FOREIGN_CALLER; extern long MX_FOREIGN_LOCKS;   /* set around an API call made "by another party" while the lock is held: mutex->lock fails for it (busy), nothing is counted in MX_LOCKS */
extern void (*ON_LOCK)(bool is_lock, int result);
extern void (*ON_LOCK_WAIT)(long k);                      /* entry of the k-th mutex->lock call, before the lock is granted */

/* ---------------------------------------------------------- unit tracker */
struct prod {
        int st;                 /* 0 none, 1 leading newline, 2 body, 3 trailing newline */
        char text[4096]; size_t tn, tp;
        bool raw, seen_cr, lead_crlf, trail_crlf;
        long units;
};
extern struct prod PA, PU;
extern long RESULT_CODES;        /* completed OK/ERROR units of the command producer */
extern long RESULT_OK, RESULT_ERR;
extern char LAST_CODE;           /* 'O' / 'E' */
void units_reset(void);

/* ------------------------------------------------------------- handlers */
struct hcall {
        int ci, kind, fsm;
        const struct cat_command *cmd;
        uint8_t *data;          /* write: const args; read/test: response buffer */
        size_t *psize;          /* read/test */
        size_t size, max, args_num;
};
typedef cat_return_state (*policy_fn)(struct hcall *h);
typedef int (*vpolicy_fn)(int ci, int vi, int dir /*0 read,1 write*/, size_t wsize);
extern policy_fn POLICY;
extern vpolicy_fn VPOLICY;
extern long N_HCALL[2][4], N_VCALL[2];
cat_return_state h_run(const struct cat_command *cmd);
cat_return_state h_read(const struct cat_command *cmd, uint8_t *d, size_t *n, size_t m);
cat_return_state h_write(const struct cat_command *cmd, const uint8_t *d, size_t n, size_t a);
cat_return_state h_test(const struct cat_command *cmd, uint8_t *d, size_t *n, size_t m);
int hv_read(const struct cat_variable *v);
int hv_write(const struct cat_variable *v, size_t n);

/* ------------------------------------------------------------ event log */
enum { EV_READ = 1, EV_READ_NO, EV_WRITE, EV_WRITE_NO, EV_HCALL, EV_HRET, EV_VCALL, EV_LOCK, EV_UNLOCK,
       EV_API, EV_PHASE, EV_NOTE };
void ev(int type, long a, long b, long c);
void ev_note(const char *fmt, ...) __attribute__((format(printf, 1, 2)));
void ev_reset(void);
void ev_dump(FILE *f, int last);

void w_noise_group(unsigned per_mille);   /* adds a group with one event-only command and switches background event traffic on for run_quiet() */
extern struct cat_command *NOISE_CMD; extern unsigned NOISE_PM;
extern unsigned QUERY_PM;            /* per-mille chance per service call of run_quiet() that one of the read-only API functions is called */
void api_queries(void);
long run_quiet(long maxsteps);      /* service until OK with all input consumed; -1 if not reached */
long quiet_bound(void);
void w_describe(FILE *f);
void io_describe(FILE *f);

/* private fields of struct cat_object are looked at only through these (structural invariants, coverage accounting, the one field excused in raw object
 * comparisons); on a tree where probe_fields.c does not compile they are not looked at at all and the raw comparisons are skipped */
#ifndef VERIF_NO_OBJECT_INVARIANTS
#define OBJ_FIELDS 1
#define OBJ_STATE() ((int)W.at->state)
#define OBJ_USTATE() ((int)W.at->unsolicited_fsm.state)
#define OBJ_UCOUNT() ((int)W.at->unsolicited_fsm.unsolicited_cmd_buffer_items_count)
#define OBJ_EXCUSE_CURRENT_CHAR(b) ((b).current_char = W.at->current_char)
#else
#define OBJ_FIELDS 0
#define OBJ_STATE() (-1000)
#define OBJ_USTATE() (-1000)
#define OBJ_UCOUNT() (-1000)
#define OBJ_EXCUSE_CURRENT_CHAR(b) ((void)0)
#endif

/* service wrapper: counts steps, tracks FSM state coverage */
cat_status svc(void);
void fmt_bytes(char *dst, size_t cap, const uint8_t *p, size_t n);   /* printable rendering */

#endif
