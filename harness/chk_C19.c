/* C19 — TEST response and command list are faithful to the descriptor.
 * Oracle: reference formatter + reference gating (refmodel.c); cross-check by feeding every advertised request
 * line back (must not be refused) and every non-advertised form (must be refused); capacity boundary: text of
 * length L is answered iff L + 1 <= capacity, otherwise ERROR (never a truncated line). */
#include "common.h"
#include "refmodel.h"

const char *CHK_RULE = "one case = one descriptor (2..10 uniquely named commands in 1..6 groups (any subset of groups disabled), 0..6 variables each over 5 types x 3 widths x 3 access modes, named or not, "
                       "all 16 handler subsets, only_test / disable / group-disable / implicit_write, descriptions or not) checked at four capacities (generous, text+2, text+1 = "
                       "exact fit, text = one short) for the TEST text of a target command (command FSM and event FSM) and for the command list; plus the dispatcher cross-check of "
                       "every (command, form); every case non-trivial; distinct by (reference list text, reference TEST text, capacity class)";

static char note[300];
static struct { char type; char text[700]; char prod; } got[80]; static int ngot;
static char listbuf[40000]; static size_t listlen;      /* concatenated raw command-list units */
static void on_unit(bool isA, bool raw, const char *text, size_t len, bool a, bool b)
{
        (void)len; (void)a; (void)b;
        if (ngot >= 80) return;
        if (raw) {
                bool have = false; for (int i = 0; i < ngot; i++) if (got[i].type == 'L') have = true;      /* one list per request; an event unit may come between two of its lines */
                if (!have) { got[ngot].type = 'L'; got[ngot].text[0] = 0; got[ngot].prod = 'A'; ngot++; listlen = 0; listbuf[0] = 0; }
                for (const char *p = text; *p && listlen < sizeof listbuf - 1; p++) if (*p != '\r') listbuf[listlen++] = *p;
                listbuf[listlen] = 0; return;
        }
        bool code = isA && (strcmp(text, "OK") == 0 || strcmp(text, "ERROR") == 0);
        got[ngot].type = code ? 'C' : 'D'; got[ngot].prod = isA ? 'A' : 'U';
        size_t o = 0; for (const char *p = text; *p && o < sizeof got[0].text - 1; p++) if (*p != '\r') got[ngot].text[o++] = *p;
        got[ngot].text[o] = 0; ngot++;
}
static bool test_chain, chain_silent; static int chain_calls;      /* chain_silent: the first pass asks for another one with NEXT (nothing is printed for it) instead of DATA_NEXT */      /* test handlers overwrite the text and ask for one more pass: the second pass must be handed the automatic text again */
static cat_return_state policy(struct hcall *h)
{
        if (h->kind == K_TEST && test_chain && h->cmd->name[0] != '#') {
                if (chain_calls++ == 0 && h->max >= 8) { *h->psize = (size_t)snprintf((char *)h->data, h->max, "~x"); if (chain_silent) CNT("test_handlers_rewriting_the_text_before_NEXT"); return chain_silent ? CAT_RETURN_STATE_NEXT : CAT_RETURN_STATE_DATA_NEXT; }
                return CAT_RETURN_STATE_DATA_OK;
        }
        if (h->kind == K_RUN && strcmp(h->cmd->name, "#H") == 0) return CAT_RETURN_STATE_PRINT_CMD_LIST_OK;
        if (h->kind == K_TEST && h->fsm == FSM_A && strcmp(h->cmd->name, "#T") == 0) return CAT_RETURN_STATE_PRINT_CMD_LIST_OK;
        return (h->kind == K_READ || h->kind == K_TEST) ? CAT_RETURN_STATE_DATA_OK : CAT_RETURN_STATE_OK;
}
void chk_describe(FILE *f)
{
        w_describe(f); fprintf(f, "%s\nobserved units:", note);
        for (int i = 0; i < ngot && i < 12; i++) { char b[3000]; const char *t = got[i].type == 'L' ? listbuf : got[i].text; size_t n = strlen(t); fmt_bytes(b, sizeof b, (const uint8_t *)t, n > 700 ? 700 : n); fprintf(f, " %c%c\"%s\"", got[i].prod, got[i].type, b); }
        fprintf(f, "\n"); io_describe(f);
}

/* descriptor kept outside the world so that it can be rebuilt at several capacities */
#define MAXC 16
static struct dcmd { char name[16]; char desc[24]; bool has_desc, only_test, disable, implicit, need_all; int grp; unsigned hmask; int nv; struct { int type, access; size_t size; char name[56]; bool named, nodata; } v[6]; } D[MAXC];
static int ND, NG; static bool gdis[MAXGRP];
static void gen_descriptor(void)
{
        NG = 1 + (int)rn(6); ND = NG + (int)rn(MAXC - 4 - (unsigned)NG);
        for (int g = 0; g < MAXGRP; g++) gdis[g] = chance(NG > 2 ? 40 : 15);
        for (int i = 0; i < ND; i++) {
                struct dcmd *d = &D[i]; memset(d, 0, sizeof *d);
                snprintf(d->name, sizeof d->name, "+C%02d%s", i, chance(30) ? "LONGER" : chance(20) ? "x" : chance(15) ? "&W" : chance(15) ? "#$@_%" : "");      /* every character that is legal in a name appears in some name */
                d->has_desc = chance(40); snprintf(d->desc, sizeof d->desc, "d%d%s", i, chance(50) ? " some text" : chance(30) ? " 0-100% %s%d" : "");      /* descriptor strings are data, not formats */ if (chance(8)) d->desc[0] = 0;      /* an empty description is still a description: the newline is printed */
                d->only_test = chance(12); d->disable = chance(12); d->implicit = chance(10); d->grp = i < NG ? i : (int)rn((unsigned)NG);
                d->hmask = rn(16); if (d->implicit) d->hmask &= 4;
                d->need_all = chance(30);
                d->nv = chance(65) ? 1 + (int)rn(6) : 0;
                for (int j = 0; j < d->nv; j++) { d->v[j].type = (int)rn(5); d->v[j].access = (int)rn(3); d->v[j].size = d->v[j].type <= CAT_VAR_NUM_HEX ? (size_t[]){ 1, 2, 4 }[rn(3)] : 1 + rn(8); d->v[j].named = chance(60); snprintf(d->v[j].name, sizeof d->v[j].name, chance(10) ? "V%d%%s" : chance(8) ? "a_rather_long_parameter_name_number_%d_of_this_cmd" : "V%d", j); d->v[j].nodata = d->only_test && chance(30); }      /* a test-only command documents its parameters: such variables need no storage */
        }
        if (chance(25)) {      /* a disabled implicit-write command whose name is a prefix of every other name: invisible, it must not cut the names that start with it */
                struct dcmd *z = &D[ND]; memset(z, 0, sizeof *z); strcpy(z->name, "+C"); z->disable = true; z->implicit = true; z->hmask = 4; z->grp = (int)rn((unsigned)NG); ND++;
        }
        /* the help command comes last, in the last group */
        struct dcmd *h = &D[ND]; memset(h, 0, sizeof *h); strcpy(h->name, "#H"); h->hmask = 1; h->grp = NG - 1; ND++;
        h = &D[ND]; memset(h, 0, sizeof *h); strcpy(h->name, "#T"); h->hmask = 8; h->grp = 0; ND++;       /* the list can also be requested from a test handler */
}
static int order[MAXC]; /* world index -> descriptor index */
static void build(size_t capA, bool shared, size_t capU)
{
        w_begin();
        int k = 0;
        for (int g = 0; g < NG; g++) {
                int n = 0; for (int i = 0; i < ND; i++) if (D[i].grp == g) n++;
                struct cat_command *arr = w_group((size_t)n, gdis[g]);
                int j = 0;
                for (int i = 0; i < ND; i++) {
                        if (D[i].grp != g) continue;
                        struct dcmd *d = &D[i]; struct cat_command *c = &arr[j++]; order[k++] = i;
                        c->name = xstr(d->name); c->description = d->has_desc ? xstr(d->desc) : NULL;
                        c->only_test = d->only_test; c->disable = d->disable; c->implicit_write = d->implicit; c->need_all_vars = d->need_all;
                        c->run = (d->hmask & 1) ? h_run : NULL; c->read = (d->hmask & 2) ? h_read : NULL; c->write = (d->hmask & 4) ? h_write : NULL; c->test = (d->hmask & 8) ? h_test : NULL;
                        struct cat_variable *v = w_vars(c, (size_t)d->nv);
                        for (int q = 0; q < d->nv; q++) { v[q].type = (cat_var_type)d->v[q].type; v[q].access = (cat_var_access)d->v[q].access; v[q].name = d->v[q].named ? xstr(d->v[q].name) : NULL; if (d->v[q].nodata) { v[q].data = NULL; v[q].data_size = d->v[q].size; CNT("variables_without_storage_on_test_only_commands"); continue; }
                                uint8_t *p = w_vdata(&v[q], d->v[q].size); for (size_t b = 0; b < d->v[q].size; b++) p[b] = (uint8_t)('a' + rn(26)); if (v[q].type == CAT_VAR_BUF_STRING) p[rn((unsigned)d->v[q].size)] = 0; }
                }
        }
        if (shared) w_buffers(capA * 2 + rn(2), true, 0); else w_buffers(capA, false, capU);
        w_init((int)rn(2));
        POLICY = policy; ON_UNIT = on_unit;
}
static bool run_line(const char *line)
{
        in_reset(); in_puts(line); in_putc('\n'); ngot = 0; out_reset(); units_reset();
        return run_quiet(quiet_bound() + 20000) >= 0;
}
static int widx(const char *name) { for (size_t i = 0; i < W.ncmds; i++) if (strcmp(W.cmd[i]->name, name) == 0) return (int)i; return -1; }
static bool excepted(int wi) { return W.cmd[wi]->implicit_write && ref_has_vars(W.cmd[wi]); }

/* list text with the lines of excepted commands removed (both reference and observation) */
static void filter_list(const char *in, char *out, size_t cap)
{
        size_t o = 0; const char *p = in;
        while (*p) {
                const char *e = strchr(p, '\n'); size_t n = e ? (size_t)(e - p) + 1 : strlen(p);
                bool drop = false;
                if (n > 2 && p[0] == 'A' && p[1] == 'T') for (size_t i = 0; i < W.ncmds; i++) { size_t nl = strlen(W.cmd[i]->name); if (excepted((int)i) && strncmp(p + 2, W.cmd[i]->name, nl) == 0 && (p[2 + nl] == '\n' || p[2 + nl] == '?' || p[2 + nl] == '=')) drop = true; }
                if (n == 1 && p[0] == '\n') drop = true;                     /* blank separators are ignored, as the property says */
                if (!drop && o + n < cap) { memcpy(out + o, p, n); o += n; }
                p += n;
        }
        out[o] = 0;
}

static void check_test(int wi, int capclass)
{
        const struct cat_command *c = W.cmd[wi];
        char ref[800]; int tl = ref_fmt_test(c, "\n", ref, sizeof ref);
        bool testable = cmd_enabled(wi) && (c->test || ref_has_vars(c)) && !c->implicit_write;
        char line[64]; snprintf(line, sizeof line, "AT%s=?", c->name);
        snprintf(note, sizeof note, "TEST request \"%s\" at command capacity %zu; reference text is %d bytes", line, W.capA, tl);
        chain_calls = 0;
        if (!run_line(line)) { inconclusive("no quiescence"); return; }
        CNT("test_requests");
        bool chained = test_chain && c->test != NULL && W.capA >= 8;
        if (testable) {
                bool fits = (size_t)tl + 1 <= W.capA;
                if (fits) {
                        CNT("test_texts_compared"); if (capclass == 2) CNT("test_texts_at_exact_fit");
                        if (chained) { CNT("test_texts_compared_after_handler_rewrite"); if (chain_silent ? !(ngot == 2 && got[0].type == 'D' && strcmp(got[0].text, ref) == 0 && got[1].type == 'C' && strcmp(got[1].text, "OK") == 0) : !(ngot == 3 && strcmp(got[0].text, "~x") == 0 && got[1].type == 'D' && strcmp(got[1].text, ref) == 0 && got[2].type == 'C' && strcmp(got[2].text, "OK") == 0))
                                viol("C19", "test-text-differs", "after the test handler rewrote the text and returned DATA_NEXT, the next pass of AT%s=? must print the automatic text \"%.150s\" again", c->name, ref); }
                        else if (!(ngot == 2 && got[0].type == 'D' && strcmp(got[0].text, ref) == 0 && got[1].type == 'C' && strcmp(got[1].text, "OK") == 0))
                                viol("C19", ngot >= 1 && got[0].type == 'C' && strcmp(got[0].text, "ERROR") == 0 ? "fitting-text-refused" : "test-text-differs", "AT%s=? must print \"%.200s\" and OK", c->name, ref);
                } else {
                        CNT("test_texts_one_short");
                        if (!(ngot == 1 && got[0].type == 'C' && strcmp(got[0].text, "ERROR") == 0)) viol("C19", "truncated-instead-of-error", "TEST text of %d bytes does not fit capacity %zu but the answer is not a single ERROR", tl, W.capA);
                }
        }
        /* event TEST of the same command */
        if (cmd_enabled(wi)) {                    /* the properties say nothing about events on disabled commands */
                ngot = 0; out_reset(); units_reset(); in_reset();
                chain_calls = 0;
                bool chained_u = test_chain && c->test != NULL && W.capU >= 8;
                /* in two cases of five the command machine is busy meanwhile: the same '=?' request is in flight and its answer is stuck in the output after k bytes
                 * (the event text is formatted while the command buffer is full of text and partly sent) */
                bool busy = testable && (size_t)tl + 1 <= W.capA && !test_chain && chance(40); size_t a_units = 0;
                if (busy) {
                        static uint8_t bits[1200]; size_t k = rn((unsigned)tl + 3);
                        for (size_t i = 0; i < sizeof bits; i++) bits[i] = (uint8_t)(i < k || i >= k + 60);
                        in_puts(line); in_putc('\n'); sch_bits(&WS, bits, sizeof bits);
                        for (long i = 0; i < 20000 && OUTN < k; i++) (void)svc();
                        CNT("test_events_while_the_command_machine_is_answering");
                }
                if (cat_trigger_unsolicited_event(W.at, c, CAT_CMD_TYPE_TEST) != CAT_STATUS_OK) { inconclusive("trigger refused"); return; }
                snprintf(note, sizeof note, "TEST event for \"%s\" at event capacity %zu; reference text is %d bytes%s", c->name, W.capU, tl, busy ? "; the command machine is answering the same '=?' request meanwhile (output stuck after some bytes)" : "");
                if (run_quiet(quiet_bound() + 20000) < 0) { inconclusive("no quiescence"); return; }
                sch_eager(&WS);
                if (busy) {      /* set the two units of the command answer aside (checked above on their own), keep what the event machine printed */
                        int w = 0; for (int i = 0; i < ngot; i++) { if (got[i].prod == 'A') { a_units++; continue; } got[w++] = got[i]; }
                        ngot = w;
                        if (a_units != 2) viol("C19", "test-text-differs", "the '=?' answer produced %zu units while an event was formatted next to it", a_units);
                }
                bool fits = (size_t)tl + 1 <= W.capU;
                CNT("test_events");
                if (fits && chained_u) { if (chain_silent ? !(ngot == 1 && got[0].prod == 'U' && strcmp(got[0].text, ref) == 0) : !(ngot == 2 && strcmp(got[0].text, "~x") == 0 && got[1].prod == 'U' && strcmp(got[1].text, ref) == 0)) viol("C19", "event-test-text-differs", "second pass of the TEST event of \"%s\" must print \"%.200s\"", c->name, ref); }
                else if (fits) { if (!(ngot == 1 && got[0].prod == 'U' && strcmp(got[0].text, ref) == 0)) viol("C19", "event-test-text-differs", "TEST event of \"%s\" must print \"%.200s\"", c->name, ref); }
                else if (ngot != 0) viol("C19", "truncated-instead-of-error", "TEST event text of %d bytes does not fit capacity %zu but something was printed", tl, W.capU);
        }
}
static void check_list_via(const char *helpname, const char *request)
{
        int hi = widx(helpname);
        if (hi < 0 || !cmd_enabled(hi)) return;
        static char ref[40000], reff[40000], gotf[40000]; size_t longest = 0;
        ref_fmt_list(ref, sizeof ref, "\n", &longest);
        /* lines are flushed one by one: the list stops with ERROR at the first line that does not fit */
        static char expect[40000]; size_t o = 0; bool all_fit = true; const char *p = ref;
        while (*p) {
                const char *e = p; if (*e == '\n') e++; e = strchr(e, '\n'); size_t n = (size_t)(e - p) + 1;
                if (n + 1 > W.capA) { all_fit = false; break; }
                memcpy(expect + o, p, n); o += n; p += n;
        }
        expect[o] = 0;
        snprintf(note, sizeof note, "command list at command capacity %zu; longest reference line %zu bytes; %s", W.capA, longest, all_fit ? "all lines fit" : "a line does not fit: ERROR expected there");
        /* in three cases of ten an event is being written when the list starts: a TEST event of some command with variables is triggered together with the request
         * and the output gets stuck after its first k bytes; the list lines must come out whole all the same */
        int evc = -1; if (chance(30)) for (size_t i = 0; i < W.ncmds; i++) if (cmd_enabled((int)i) && ref_has_vars(W.cmd[i])) { evc = (int)i; break; }
        if (evc >= 0) {
                static uint8_t bits[400]; size_t k = rn(13);
                for (size_t i = 0; i < sizeof bits; i++) bits[i] = (uint8_t)(i < k || i >= k + 70);
                in_reset(); in_puts(request); in_putc('\n'); ngot = 0; out_reset(); units_reset();
                sch_bits(&WS, bits, sizeof bits);
                (void)cat_trigger_unsolicited_event(W.at, W.cmd[evc], CAT_CMD_TYPE_TEST);
                bool q = run_quiet(quiet_bound() + 20000) >= 0;
                sch_eager(&WS);
                if (!q) { inconclusive("no quiescence"); return; }
                int w = 0; for (int i = 0; i < ngot; i++) { if (got[i].prod == 'U') continue; got[w++] = got[i]; }
                ngot = w;
                /* what the host sees is the wire, not the per-producer units: the other producer may take over only at the end of a line */
                for (size_t i = 1; i < OUTN; i++) if (OUTP[i] != OUTP[i - 1] && OUTB[i - 1] != '\n') { viol("C19", "list-differs", "a line of the command list is torn on the wire: the %s producer cuts in at output offset %zu, in the middle of a line", OUTP[i] == 'U' ? "event" : "command", i); return; }
                CNT("lists_started_while_an_event_is_being_written");
        } else if (!run_line(request)) { inconclusive("no quiescence"); return; }
        CNT("list_requests"); if (request[3] == 'T') CNT("list_requests_via_test_handler");
        const char *lst = (ngot >= 1 && got[0].type == 'L') ? listbuf : "";
        int ci = (ngot >= 1 && got[0].type == 'L') ? 1 : 0;
        filter_list(expect, reff, sizeof reff); filter_list(lst, gotf, sizeof gotf);
        const char *code = (ci < ngot && got[ci].type == 'C') ? got[ci].text : "?";
        if (strcmp(reff, gotf) != 0) viol("C19", "list-differs", "command list differs from the descriptor: expected \"%.300s\"", reff);
        else if (strcmp(code, all_fit ? "OK" : "ERROR") != 0 || ngot != ci + 1) viol("C19", all_fit ? "fitting-list-refused" : "truncated-instead-of-error", "command list must end with %s (got %s, %d units)", all_fit ? "OK" : "ERROR", code, ngot);
        if (!all_fit) CNT("lists_with_a_line_that_does_not_fit"); else CNT("lists_compared");
}
static void check_list(void) { check_list_via("#H", "AT#H"); if (!case_failed()) check_list_via("#T", "AT#T=?"); }
static void cross_check(void)
{
        static const char *sfx[4] = { "", "?", "=", "=?" };
        for (size_t i = 0; i < W.ncmds && !case_failed(); i++) {
                const struct cat_command *c = W.cmd[i];
                if (c->implicit_write || c->name[0] == '#') continue;         /* a typed implicit-write name turns every suffix into argument text */
                for (int f = 0; f < 4 && !case_failed(); f++) {
                        char line[300]; int p = snprintf(line, sizeof line, "AT%s%s", c->name, sfx[f]);
                        if (f == K_WRITE) for (size_t j = 0; j < c->var_num && ref_writable(c); j++) { const struct cat_variable *v = &c->var[j]; p += snprintf(line + p, sizeof line - (size_t)p, "%s%s", j ? "," : "", v->type == CAT_VAR_INT_DEC ? "1" : v->type == CAT_VAR_UINT_DEC ? "1" : v->type == CAT_VAR_NUM_HEX ? "0x1" : v->type == CAT_VAR_BUF_HEX ? "01" : "\"\""); }
                        bool adv = ref_form_accepted((int)i, f);
                        if (f == K_TEST && cmd_enabled((int)i) && !adv) adv = !c->only_test && c->write != NULL;        /* '=?' on a command without test/vars is a WRITE of "?" (documented exception) */
                        snprintf(note, sizeof note, "dispatcher cross-check: \"%s\" must be %s", line, adv ? "accepted" : "refused");
                        if (!run_line(line)) { inconclusive("no quiescence"); return; }
                        CNT("dispatcher_cross_checks");
                        bool got_ok = ngot >= 1 && got[ngot - 1].type == 'C' && strcmp(got[ngot - 1].text, "OK") == 0;
                        bool got_err = ngot == 1 && got[0].type == 'C' && strcmp(got[0].text, "ERROR") == 0;
                        if (adv && !got_ok) viol("C19", "advertised-form-refused", "\"%s\" is a form the list advertises but it was refused", line);
                        else if (!adv && !got_err) viol("C19", "unadvertised-form-accepted", "\"%s\" is not advertised but it was not refused with ERROR", line);
                }
        }
}

/* sweep: command list of tables with 250..319 commands (the list walks the whole table; indices must not wrap at 2^8) */
static void sweep_big_list(long item)
{
        int n = 250 + (int)(item * 7) % 70; if (item == 0) n = 256; if (item == 1) n = 257; if (item == 2) n = 319;
        snprintf(note, sizeof note, "sweep: command list of a table with %d commands", n);
        w_begin();
        int done = 0; char nm[16];
        for (int g = 0; g < 3; g++) {
                int cnt = g == 2 ? n - done : n / 3;
                struct cat_command *a = w_group((size_t)cnt, g == 1 && (item & 1));
                for (int j = 0; j < cnt; j++, done++) {
                        if (done == n - 1) { a[j].name = xstr("#H"); a[j].run = h_run; continue; }
                        snprintf(nm, sizeof nm, "+K%03d", done); a[j].name = xstr(nm);
                        unsigned hm = 1 + rn(15); a[j].run = (hm & 1) ? h_run : NULL; a[j].read = (hm & 2) ? h_read : NULL; a[j].write = (hm & 4) ? h_write : NULL; a[j].test = (hm & 8) ? h_test : NULL;
                        a[j].disable = done % 11 == 3; a[j].only_test = done % 13 == 5;
                }
        }
        size_t cap = w_min_cap() + 24;
        w_buffers((item & 2) ? cap * 2 : cap, (item & 2) != 0, 16);
        w_init((int)(item & 1));
        POLICY = policy; ON_UNIT = on_unit; test_chain = false;
        check_list_via("#H", "AT#H");
        nontrivial(hash_u64((uint64_t)n, 1900 + (uint64_t)item));
        CNT("big_table_lists");
}
/* groups that are views of one command array (a "basic" and a "full" command set): every registration is listed under its own group's disable flag */
static void view_groups_case(void)
{
        w_begin();
        size_t n = 3 + rn(4), k = 1 + rn((unsigned)n - 1);
        bool first_is_view = chance(50), d_full = chance(40), d_view = chance(40);
        struct cat_command *arr;
        char nm[12];
        if (!first_is_view) arr = w_group(n, d_full);
        else { arr = xalloc(n * sizeof *arr); memset(arr, 0, n * sizeof *arr); w_group_view(arr, k, d_view); w_group_view(arr, n, d_full); }
        for (size_t j = 0; j < n; j++) {
                snprintf(nm, sizeof nm, "+V%zu", j); arr[j].name = xstr(nm);
                unsigned hm = 1 + rn(15); arr[j].run = (hm & 1) ? h_run : NULL; arr[j].read = (hm & 2) ? h_read : NULL; arr[j].write = (hm & 4) ? h_write : NULL; arr[j].test = (hm & 8) ? h_test : NULL;
                arr[j].disable = chance(15); arr[j].only_test = chance(15);
        }
        if (!first_is_view) w_group_view(arr, k, d_view);
        struct cat_command *h = w_group(1, false); h[0].name = xstr("#H"); h[0].run = h_run;
        snprintf(note, sizeof note, "groups that are views of one array: %zu commands, view of the first %zu (%s), full group %s, view registered %s", n, k, d_view ? "disabled" : "enabled", d_full ? "disabled" : "enabled", first_is_view ? "first" : "second");
        size_t cap = 40; bool shared = chance(50);
        w_buffers(shared ? cap * 2 : cap, shared, 16);
        w_init((int)rn(2));
        POLICY = policy; ON_UNIT = on_unit; test_chain = false;
        check_list_via("#H", "AT#H");
        CNT("lists_of_tables_with_view_groups");
        nontrivial(hash_u64((uint64_t)(n * 64 + k * 8 + d_full * 4 + d_view * 2 + first_is_view), 1950));
}
/* the '=?' text of a command overflows its buffer exactly at a separator (the text up to a ',' is capacity - 1 characters long) while the '=?' text of an event
 * sits formatted, not yet sent, in the other half of a shared buffer: the request is answered ERROR, the event line comes out whole */
static void separator_overflow_case(void)
{
        w_begin();
        struct cat_command *a = w_group(3, false);
        a[0].name = xstr("+T"); unsigned nv = 2 + rn(3);
        struct cat_variable *v = w_vars(&a[0], nv);
        for (unsigned j = 0; j < nv; j++) { char nm[40]; snprintf(nm, sizeof nm, chance(50) ? "parameter_number_%u" : "p%u", j); v[j].name = xstr(nm); v[j].type = (cat_var_type)rn(5); v[j].access = (cat_var_access)rn(3); size_t sz = v[j].type <= CAT_VAR_NUM_HEX ? (size_t[]){ 1, 2, 4 }[rn(3)] : 1 + rn(8); uint8_t *d = w_vdata(&v[j], sz); memset(d, 'a', sz); d[sz - 1] = 0; }
        a[1].name = xstr("+E"); { struct cat_variable *e = w_vars(&a[1], 1); e->type = CAT_VAR_UINT_DEC; uint8_t *d = w_vdata(e, 1); *d = 7; }
        a[2].name = xstr("#H"); a[2].run = h_run;
        W.capA = 4096;
        char ref[800], refe[64]; int tl = ref_fmt_test(&a[0], "\n", ref, sizeof ref); int el = ref_fmt_test(&a[1], "\n", refe, sizeof refe);
        size_t offs[8]; int no = 0; for (int i = 0; i < tl; i++) if (ref[i] == ',' && (size_t)i >= (size_t)el + 2 && no < 8) offs[no++] = (size_t)i;
        if (no == 0) { CNT("separator_overflow_cases_skipped"); return; }
        size_t cap = offs[rn((unsigned)no)] + 1;          /* the text in front of that ',' has cap - 1 characters: the ',' is the last byte of the buffer */
        w_buffers(cap * 2 + rn(2), true, 0);
        w_init((int)rn(2));
        POLICY = policy; ON_UNIT = on_unit; test_chain = false;
        static uint8_t bits[300]; for (size_t i = 0; i < sizeof bits; i++) bits[i] = (uint8_t)(i >= 80);
        snprintf(note, sizeof note, "'=?' text of +T (%d bytes) on a command capacity of %zu: it overflows exactly at a separator while the '=?' event text of +E waits, formatted, in the other half", tl, cap);
        in_reset(); in_puts("AT+T=?\n"); ngot = 0; out_reset(); units_reset();
        sch_bits(&WS, bits, sizeof bits);
        (void)cat_trigger_unsolicited_event(W.at, &a[1], CAT_CMD_TYPE_TEST);
        bool q = run_quiet(quiet_bound() + 20000) >= 0;
        sch_eager(&WS);
        if (!q) { inconclusive("no quiescence"); return; }
        int nu = 0, na = 0; bool uok = true, aok = true;
        for (int i = 0; i < ngot; i++) { if (got[i].prod == 'U') { nu++; if (strcmp(got[i].text, refe) != 0) uok = false; } else { na++; if (!(got[i].type == 'C' && strcmp(got[i].text, "ERROR") == 0)) aok = false; } }
        CNT("separator_overflow_cases");
        if (nu != 1 || !uok) viol("C19", "event-test-text-differs", "the TEST event of +E must print \"%s\" once; %d event unit(s) seen%s", refe, nu, uok ? "" : ", with another text");
        else if (na != 1 || !aok) viol("C19", "truncated-instead-of-error", "AT+T=? (text of %d bytes, capacity %zu) must be answered with a single ERROR", tl, cap);
        nontrivial(hash_u64((uint64_t)cap, hash_bytes(ref, (size_t)tl, 1960)));
}
#define N_BIG 10
struct case_budget chk_budget(const char *tier)
{
        struct case_budget b = { N_BIG, strcmp(tier, "thorough") == 0 ? 2000000 : 60000 };
        return b;
}
void chk_run_case(uint64_t seed, long c, bool is_sweep)
{
        (void)seed; note[0] = 0;
        if (is_sweep) { sweep_big_list(c); return; }
        if (chance(8)) { view_groups_case(); return; }
        if (chance(6)) { separator_overflow_case(); return; }
        gen_descriptor();
        test_chain = chance(50); chain_silent = chance(40);
        int target = (int)rn((unsigned)ND - 2); if (strcmp(D[target].name, "+C") == 0) target = 0;
        /* generous build: reference lengths, cross-check */
        build(700, chance(50), 700);
        char ref[800]; int tl = ref_fmt_test(W.cmd[widx(D[target].name)], "\n", ref, sizeof ref);
        static char lref[40000]; size_t longest = 0; ref_fmt_list(lref, sizeof lref, "\n", &longest);
        uint64_t h = hash_bytes(lref, strlen(lref), hash_bytes(ref, (size_t)tl, 19));
        check_test(widx(D[target].name), 0);
        if (!case_failed()) check_list();
        if (!case_failed()) cross_check();
        for (int pass = 1; pass < 4 && !case_failed(); pass++) {
                size_t cap = pass == 1 ? (size_t)tl + 2 : pass == 2 ? (size_t)tl + 1 : (size_t)tl;
                if (cap < 8) cap = 8;
                build(cap, chance(50), cap);
                if (cap >= w_min_cap()) check_test(widx(D[target].name), pass);
                size_t cap2 = pass == 1 ? longest + 2 : pass == 2 ? longest + 1 : longest;
                if (cap2 < 8) cap2 = 8;
                if (!case_failed()) { build(cap2, chance(50), 16); if (cap2 >= w_min_cap()) check_list(); }
        }
        nontrivial(h);
        if (sample_wanted()) { char b[400]; fmt_bytes(b, sizeof b, (uint8_t *)ref, (size_t)tl > 100 ? 100 : (size_t)tl); sample_printf("%d commands; TEST text of %s = \"%s\" (%d bytes) checked at capacities generous/%d/%d/%d on both FSMs; list of %zu bytes, longest line %zu, checked likewise; every (command, form) fed back", ND, D[target].name, b, tl, tl + 2, tl + 1, tl, strlen(lref), longest); }
}
int main(int argc, char **argv) { MY_PROP = "C19"; PROG_NAME = "chk_C19"; return verif_main(argc, argv); }
