#ifndef VERIF_ARGCHECK_H
#define VERIF_ARGCHECK_H
#include "common.h"
#include "refmodel.h"
struct arg_field { int type, access; size_t size; bool no_callback; };
extern struct arg_field AF[MAXVAR + 2]; extern int NAF;
extern char ARG_NOTE[200];
extern size_t ARG_CAP_HINT;
struct cat_command *args_world(int nv, bool with_handler, bool need_all, bool shared);
void args_run_and_judge(struct cat_command *c, const uint8_t *args, size_t n, const char *focus_prop);
void args_describe(FILE *f);
#endif
