/* libFuzzer front-end for C03 (thorough tier): the fuzz input is the decision stream of the generators in
 * engine.c (table shape, buffer sizes, lines, schedules, stimulus), so coverage feedback steers the same executor
 * and the same monitors that the random workloads use.  Only C03 findings (sanitizer reports, half-buffer
 * comparison) stop the fuzzer. */
#include "engine.h"

const char *CHK_RULE = "libFuzzer-driven histories";
struct case_budget chk_budget(const char *tier) { (void)tier; struct case_budget b = { 0, 0 }; return b; }
void chk_run_case(uint64_t seed, long c, bool is_sweep) { (void)seed; (void)c; (void)is_sweep; }
void chk_describe(FILE *f) { eng_describe(f); }

int LLVMFuzzerTestOneInput(const uint8_t *data, size_t size)
{
        static bool init;
        static bool c03;
        if (!init) {
                /* VERIF_FUZZ_PROP selects whose monitors are fatal: C03 (default; sanitizer reports, canaries, half comparison; unspecified cells included)
                 * or one of the engine properties C01 / C11 / C14 / C15 / C18 (their step monitors; unspecified cells excluded) */
                const char *p = getenv("VERIF_FUZZ_PROP");
                init = true; MY_PROP = (p && *p) ? strdup(p) : "C03"; PROG_NAME = "fuzz_target"; c03 = strcmp(MY_PROP, "C03") == 0; SAN_REPLAY = c03; ABORT_ON_VIOL = true;
        }
        if (size < 8) return 0;
        verif_case_reset();
        CUR_CASE = (long)(hash_bytes(data, size, 1) & 0x7fffffff);   /* handler decisions are a function of the input: artifacts replay */
        FUZZ_DATA = data; FUZZ_LEN = size; FUZZ_POS = 0;
        eng_default_profile();
        EP.unspecified_cells = c03; EP.p_weird = 25; EP.p_long_line = 20; EP.p_event_step = 60; EP.p_cut = 20; EP.max_cmds = 24; EP.p_lookup = 30;
        eng_gen_table();
        eng_gen_input(1 + rn(5));
        eng_random_schedules();
        eng_run_history();
        FUZZ_DATA = NULL;
        return 0;
}
