#include "common.h"
#ifndef VERIF_BUILD_TAG
#define VERIF_BUILD_TAG "plain"      /* run.py passes "release" for the NDEBUG / -O2 / unsigned-char build */
#endif
#include <unistd.h>
#include <fcntl.h>
#include <signal.h>
#include <errno.h>
#include <time.h>
#include <setjmp.h>

/* ================================================================== PRNG */
prng_t G;
extern const uint8_t *FUZZ_DATA; extern size_t FUZZ_LEN, FUZZ_POS;
static uint64_t splitmix(uint64_t *x)
{
        uint64_t z = (*x += 0x9E3779B97F4A7C15ULL);
        z = (z ^ (z >> 30)) * 0xBF58476D1CE4E5B9ULL;
        z = (z ^ (z >> 27)) * 0x94D049BB133111EBULL;
        return z ^ (z >> 31);
}
void pr_seed(prng_t *p, uint64_t a, uint64_t b)
{
        uint64_t x = a * 0x9E3779B97F4A7C15ULL ^ (b + 0x632BE59BD9B4E019ULL);
        splitmix(&x);
        x ^= b * 0xD6E8FEB86659FD93ULL;
        p->s = splitmix(&x);
        if (p->s == 0)
                p->s = 0x1234567;
}
uint64_t pr_next(prng_t *p)
{
        if (FUZZ_DATA && p == &G) { uint64_t v = 0; for (int i = 0; i < 8 && FUZZ_POS < FUZZ_LEN; i++) v |= (uint64_t)FUZZ_DATA[FUZZ_POS++] << (8 * i); return v; }
        uint64_t s = p->s;
        s ^= s >> 12; s ^= s << 25; s ^= s >> 27;
        p->s = s;
        return s * 2685821657736338717ULL;
}
const uint8_t *FUZZ_DATA; size_t FUZZ_LEN, FUZZ_POS;
unsigned pr_n(prng_t *p, unsigned n)
{
        if (FUZZ_DATA && p == &G) {      /* libFuzzer front-end: every generator decision is read from the fuzz input (0 once it is exhausted) */
                unsigned v = 0;
                if (FUZZ_POS < FUZZ_LEN) v = FUZZ_DATA[FUZZ_POS++];
                if (n > 256 && FUZZ_POS < FUZZ_LEN) v |= (unsigned)FUZZ_DATA[FUZZ_POS++] << 8;
                return n ? v % n : 0;
        }
        return n ? (unsigned)((pr_next(p) >> 11) % n) : 0;
}
bool pr_pct(prng_t *p, unsigned pct) { return pr_n(p, 100) < pct; }

/* ======================================================== bookkeeping */
const char *MY_PROP = "?";
const char *PROG_NAME = "?";
bool SAN_REPLAY, VERBOSE;
uint64_t CUR_SEED; long CUR_CASE, CUR_STEP;
const char *TIER = "quick";
static const char *replay_dir = NULL;
static int progress_fd = -1;

#define MAXCTR 256
static const char *ctr_names[MAXCTR]; long long CTR[MAXCTR]; static int nctr;
int ctr_slot(const char *name)
{
        for (int i = 0; i < nctr; i++)
                if (strcmp(ctr_names[i], name) == 0)
                        return i;
        if (nctr >= MAXCTR) { fprintf(stderr, "too many counters\n"); exit(2); }
        ctr_names[nctr] = name;
        return nctr++;
}
long long ctr_get(const char *name) { return CTR[ctr_slot(name)]; }

/* distinct sets: open addressing over 64-bit hashes */
struct dset { const char *name; uint64_t *tab; size_t cap, n; };
#define MAXDSET 48
static struct dset dsets[MAXDSET]; static int ndset;
int dset_slot(const char *name)
{
        for (int i = 0; i < ndset; i++)
                if (strcmp(dsets[i].name, name) == 0)
                        return i;
        if (ndset >= MAXDSET) { fprintf(stderr, "too many dsets\n"); exit(2); }
        dsets[ndset].name = name;
        dsets[ndset].cap = 1024;
        dsets[ndset].tab = calloc(1024, sizeof(uint64_t));
        return ndset++;
}
static void dset_insert(struct dset *d, uint64_t h)
{
        if (h == 0) h = 1;
        size_t m = d->cap - 1, i = (size_t)(h * 0x9E3779B97F4A7C15ULL >> 20) & m;
        while (d->tab[i] != 0) {
                if (d->tab[i] == h) return;
                i = (i + 1) & m;
        }
        d->tab[i] = h; d->n++;
}
void dset_add_slot(int slot, uint64_t h)
{
        struct dset *d = &dsets[slot];
        if (d->n * 2 >= d->cap) {
                if (d->cap >= (1u << 23)) return;    /* saturate: undercount rather than blow memory */
                struct dset nd = { d->name, calloc(d->cap * 2, sizeof(uint64_t)), d->cap * 2, 0 };
                for (size_t i = 0; i < d->cap; i++)
                        if (d->tab[i]) dset_insert(&nd, d->tab[i]);
                free(d->tab);
                *d = nd;
        }
        dset_insert(d, h);
}
void nontrivial(uint64_t h) { DSET("nontrivial", h); }
uint64_t hash_bytes(const void *p, size_t n, uint64_t h)
{
        const uint8_t *b = p;
        h ^= 0xcbf29ce484222325ULL;
        for (size_t i = 0; i < n; i++) { h ^= b[i]; h *= 0x100000001b3ULL; }
        return h ^ (h >> 29);
}
uint64_t hash_u64(uint64_t v, uint64_t h) { return hash_bytes(&v, sizeof v, h); }

#define MAXSAMPLES 6
static char *samples[MAXSAMPLES]; static int nsamples; static long sample_next = 0;
bool sample_wanted(void) { return nsamples < MAXSAMPLES && CUR_CASE >= sample_next; }
void sample_printf(const char *fmt, ...)
{
        if (!sample_wanted()) return;
        char b[1500]; va_list ap; va_start(ap, fmt); vsnprintf(b, sizeof b, fmt, ap); va_end(ap);
        samples[nsamples++] = strdup(b);
        sample_next = CUR_CASE + 1 + (CUR_CASE / 2);     /* spread samples over the run */
}

struct vrec { char prop[8]; char key[80]; uint64_t seed; long c, step; char msg[400]; char replay[300]; };
#define MAXV 48
static struct vrec vrecs[MAXV]; static int nvrec; static long nviol_total, nforeign; static bool cur_failed;
static long n_inconclusive; static char inconc_why[200];
static char foreign_keys[16][96]; static long foreign_cnt[16]; static int nfk;
bool case_failed(void) { return cur_failed; }
void inconclusive(const char *why) { n_inconclusive++; snprintf(inconc_why, sizeof inconc_why, "%s (case %ld)", why, CUR_CASE); }

static void write_replay(struct vrec *v)
{
        if (!replay_dir) return;
        snprintf(v->replay, sizeof v->replay, "%s/%s-%s-q%d-s%llu-c%ld.txt", replay_dir, v->prop, PROG_NAME, QCAP,
                 (unsigned long long)v->seed, v->c);
        FILE *f = fopen(v->replay, "w");
        if (!f) { v->replay[0] = 0; return; }
        fprintf(f, "{\"prog\":\"%s\",\"qcap\":%d,\"seed\":%llu,\"case\":%ld,\"tier\":\"%s\",\"prop\":\"%s\",\"key\":\"%s\",\"san\":%d,\"build\":\"%s\"}\n",
                PROG_NAME, QCAP, (unsigned long long)v->seed, v->c, TIER, v->prop, v->key, SAN_REPLAY ? 1 : 0, VERIF_BUILD_TAG);
        fprintf(f, "violation: %s\nat service step %ld\n\n--- scenario ---\n", v->msg, v->step);
        chk_describe(f);
        fprintf(f, "\n--- event log (tail) ---\n");
        ev_dump(f, 160);
        fclose(f);
}

void viol(const char *prop, const char *key, const char *fmt, ...)
{
        char msg[400]; va_list ap; va_start(ap, fmt); vsnprintf(msg, sizeof msg, fmt, ap); va_end(ap);
        bool mine = strcmp(prop, SAN_REPLAY ? "C03" : MY_PROP) == 0;
        if (!mine) {
                nforeign++;
                char fk[96]; snprintf(fk, sizeof fk, "%s/%s", prop, key);
                int i; for (i = 0; i < nfk; i++) if (strcmp(foreign_keys[i], fk) == 0) break;
                if (i == nfk && nfk < 16) { strcpy(foreign_keys[nfk++], fk); }
                if (i < 16) foreign_cnt[i]++;
                if (VERBOSE) fprintf(stderr, "[foreign %s/%s] %s\n", prop, key, msg);
                return;
        }
        nviol_total++;
        if (ABORT_ON_VIOL) { fprintf(stderr, "VIOLATION %s/%s: %s\n", prop, key, msg); abort(); }
        if (VERBOSE) fprintf(stderr, "VIOLATION %s/%s seed=%llu case=%ld step=%ld: %s\n", prop, key,
                             (unsigned long long)CUR_SEED, CUR_CASE, CUR_STEP, msg);
        if (cur_failed) return;               /* one record per case */
        cur_failed = true;
        int same = 0;
        for (int i = 0; i < nvrec; i++) if (strcmp(vrecs[i].key, key) == 0) same++;
        if (nvrec >= MAXV || same >= 3) return;
        struct vrec *v = &vrecs[nvrec++];
        snprintf(v->prop, sizeof v->prop, "%s", prop); snprintf(v->key, sizeof v->key, "%s", key);
        v->seed = CUR_SEED; v->c = CUR_CASE; v->step = CUR_STEP; snprintf(v->msg, sizeof v->msg, "%s", msg);
        write_replay(v);
}

/* ================================================================ memory */
const char *CANARY_PROP;
struct blk { uint8_t *p; size_t n; uint8_t *base; };
static struct blk *blks; static size_t nblk, capblk;
#define CANARY 16
static void *xalloc_off(size_t n, size_t off);
void *xalloc(size_t n) { return xalloc_off(n, 0); }
/* off: the block starts that many bytes behind an aligned address (byte buffers only: a uint8_t array may sit at any address) */
static void *xalloc_off(size_t n, size_t off)
{
        size_t tot = (VERIF_ASAN ? n : n + CANARY) + off;
        uint8_t *base, *p;
        if (VERIF_ASAN && n == 0) { base = malloc(8); p = base ? base + 8 : NULL; }      /* ASan turns malloc(0) into malloc(1): hand out the end of a block instead, so that touching byte 0 of a zero-sized block is reported */
        else { base = malloc(tot); p = base ? base + off : NULL; }
        if (!p) { fprintf(stderr, "oom\n"); exit(2); }
        if (!VERIF_ASAN)
                for (size_t i = 0; i < CANARY; i++) p[n + i] = (uint8_t)(0xC5 ^ (i * 7));
        if (nblk == capblk) { capblk = capblk ? capblk * 2 : 256; blks = realloc(blks, capblk * sizeof *blks); }
        blks[nblk].p = p; blks[nblk].n = n; blks[nblk].base = base; nblk++;
        return p;
}
char *xstr(const char *s) { size_t n = strlen(s) + 1; char *p = xalloc(n); memcpy(p, s, n); return p; }
void xfree_all(void)
{
        for (size_t i = 0; i < nblk; i++) free(blks[i].base);
        nblk = 0;
}
void canary_check(const char *where)
{
        if (VERIF_ASAN) return;
        for (size_t b = 0; b < nblk; b++)
                for (size_t i = 0; i < CANARY; i++)
                        if (blks[b].p[blks[b].n + i] != (uint8_t)(0xC5 ^ (i * 7))) {
                                viol("C03", "canary", "byte %zu behind a %zu-byte block was overwritten (%s)", i, blks[b].n, where);
                                if (CANARY_PROP) viol(CANARY_PROP, "byte-beyond-block-modified", "byte %zu behind a %zu-byte block (variable / buffer) was overwritten (%s)", i, blks[b].n, where);
                                blks[b].p[blks[b].n + i] = (uint8_t)(0xC5 ^ (i * 7));
                                return;
                        }
}

/* ================================================================= world */
struct world W;
bool NEXT_WORLD_USE_MUTEX; unsigned EMPTY_TABLE_PM = 160;
static struct cat_object *SHADOW;          /* second, unrelated parser instance (see below) */
unsigned POOL_PCT = 30;
static struct cat_command *pool; static size_t pool_left;
const char *const LORE[] = { "\xEF\xBB\xBF", "A/", "a/", ";", "+++", "\xFF\xFB\x01", "\xFF\xFD\x03", "\x1b[A", "\x1b[2J", "\xFE\xFF", "\xFF\xFE", "\x1a", "\x7f", "\b", "> ", "\x11", "\x13", "\xC3\xA9", "\x03", "\x04" };
const unsigned N_LORE = sizeof LORE / sizeof LORE[0];
void w_begin(void)
{
        xfree_all();
        memset(&W, 0, sizeof W);
        pool = NULL; pool_left = 0;
        if (chance(POOL_PCT)) { pool_left = 2 + rn(40); pool = xalloc(pool_left * sizeof *pool); memset(pool, 0, pool_left * sizeof *pool); CNT("worlds_with_adjacent_group_arrays"); }
        W.gptr = NULL;
        W.use_mutex = NEXT_WORLD_USE_MUTEX;
        SHADOW = NULL;
}
struct cat_command *w_group(size_t ncmd, bool disable)
{
        if (W.ngroups >= MAXGRP || W.ncmds + ncmd > MAXCMD) { fprintf(stderr, "table too large\n"); exit(2); }
        struct cat_command_group *g = xalloc(sizeof *g);
        memset(g, 0, sizeof *g);
        struct cat_command *arr;
        if (pool && ncmd <= pool_left) { arr = pool; pool += ncmd; pool_left -= ncmd; if (W.ngroups) CNT("groups_starting_where_the_previous_array_ends"); }       /* one array split into groups */
        else { arr = xalloc(ncmd * sizeof *arr); pool = NULL; }
        memset(arr, 0, ncmd * sizeof *arr);
        g->cmd = arr; g->cmd_num = ncmd; g->disable = disable; g->name = NULL;
        for (size_t j = 0; j < ncmd; j++) { W.cmd[W.ncmds] = &arr[j]; W.grp_of[W.ncmds] = (int)W.ngroups; W.ncmds++; }
        W.grp[W.ngroups++] = g;
        return arr;
}
/* a group that is a view of (a prefix of) an array another group already owns: the same commands are registered a second time, under this group's disable flag */
void w_group_view(struct cat_command *arr, size_t ncmd, bool disable)
{
        if (W.ngroups >= MAXGRP || W.ncmds + ncmd > MAXCMD) { fprintf(stderr, "table too large\n"); exit(2); }
        struct cat_command_group *g = xalloc(sizeof *g);
        memset(g, 0, sizeof *g);
        g->cmd = arr; g->cmd_num = ncmd; g->disable = disable;
        for (size_t j = 0; j < ncmd; j++) { W.cmd[W.ncmds] = &arr[j]; W.grp_of[W.ncmds] = (int)W.ngroups; W.ncmds++; }
        W.grp[W.ngroups++] = g;
}
struct cat_variable *w_vars(struct cat_command *c, size_t nv)
{
        if (nv == 0) {          /* no variables: var_num 0 with var NULL or (one in six) with var pointing at an empty table */
                c->var = EMPTY_TABLE_PM && rn(1000) < EMPTY_TABLE_PM ? xalloc(0) : NULL; c->var_num = 0;
                if (c->var) CNT("commands_with_an_empty_variable_table");
                return NULL;
        }
        struct cat_variable *v = xalloc(nv * sizeof *v);
        memset(v, 0, nv * sizeof *v);
        c->var = v; c->var_num = nv;
        return v;
}
void *w_vdata(struct cat_variable *v, size_t size)
{
        v->data = xalloc(size); v->data_size = size;
        memset(v->data, 0, size);
        return v->data;
}
void w_buffers(size_t bufsz, bool shared, size_t ubufsz)
{
        W.bufsz = bufsz; W.shared = shared; W.ubufsz = shared ? 0 : ubufsz;
        W.buf = xalloc_off(bufsz, chance(40) ? 1 + rn(3) : 0);          /* the working buffers are byte arrays: no alignment is promised to the library */
        W.ubuf = shared ? NULL : xalloc_off(ubufsz, chance(40) ? 1 + rn(3) : 0);
        W.capA = shared ? bufsz >> 1 : bufsz;
        W.capU = shared ? bufsz >> 1 : ubufsz;
        W.bufA = W.buf;
        W.bufU = shared ? W.buf + (bufsz >> 1) : W.ubuf;
}
static prng_t scribble;
static void fill(void *p, size_t n, int mode)
{
        if (mode == 0) memset(p, 0, n);
        else { uint8_t *b = p; uint64_t x = 0; for (size_t i = 0; i < n; i++) { if ((i & 7) == 0) x = rnd(); b[i] = (uint8_t)(x >> ((i & 7) * 8)); } }
}
/* ---- "previous life" of the parser object and a second, unrelated parser instance --------------------------------------------
 * cat_init must make a used object as good as a new one, and two parser objects must not share anything.  Both are workload
 * dimensions, not oracles: the property monitors of the check that uses the world decide.  The other parser has its own small
 * command table (two groups, 2 + 4 commands), its own buffers and its own io callbacks; nothing of it is visible to the monitors. */
unsigned PRELIFE_PCT = 25, SHADOW_PCT = 20;
static bool in_other_parser;
static prng_t OP;                                   /* private stream of the other parser (seeded from G once per use) */
static uint8_t op_in[96]; static size_t op_inlen, op_inpos; static unsigned op_wpct;
static int op_read(char *ch) { if (op_inpos >= op_inlen) return 0; *ch = (char)op_in[op_inpos++]; return 1; }
static int op_write(char ch) { (void)ch; return pr_pct(&OP, op_wpct) ? 1 : 0; }
static struct cat_io_interface op_io = { .write = op_write, .read = op_read };
static uint8_t op_v0[4]; static char op_v1[8]; static uint8_t op_v2[3];
static cat_return_state op_run(const struct cat_command *c) { (void)c; unsigned r = pr_n(&OP, 10); return r < 5 ? CAT_RETURN_STATE_OK : r < 7 ? CAT_RETURN_STATE_HOLD : r < 8 ? CAT_RETURN_STATE_PRINT_CMD_LIST_OK : CAT_RETURN_STATE_ERROR; }
static cat_return_state op_rd(const struct cat_command *c, uint8_t *d, size_t *n, size_t m) { (void)c; (void)d; (void)n; (void)m; unsigned r = pr_n(&OP, 10); return r < 6 ? CAT_RETURN_STATE_DATA_OK : r < 8 ? CAT_RETURN_STATE_DATA_NEXT : CAT_RETURN_STATE_HOLD; }
static cat_return_state op_wr(const struct cat_command *c, const uint8_t *d, size_t n, size_t a) { (void)c; (void)d; (void)n; (void)a; return pr_pct(&OP, 80) ? CAT_RETURN_STATE_OK : CAT_RETURN_STATE_HOLD; }
static struct cat_variable op_vars[3] = {
        { .type = CAT_VAR_UINT_DEC, .data = op_v0, .data_size = 4, .name = "a" },
        { .type = CAT_VAR_BUF_STRING, .data = op_v1, .data_size = 8 },
        { .type = CAT_VAR_BUF_HEX, .data = op_v2, .data_size = 3, .access = CAT_VAR_ACCESS_READ_ONLY },
};
static struct cat_command op_g0[2] = {
        { .name = "+P0", .run = op_run, .read = op_rd },
        { .name = "+P1", .write = op_wr, .var = op_vars, .var_num = 3 },
};
static struct cat_command op_g1[4] = {
        { .name = "+P2", .run = op_run, .description = "two" },
        { .name = "+P3", .read = op_rd, .var = op_vars, .var_num = 2 },
        { .name = "+Q", .run = op_run, .write = op_wr },
        { .name = "+P5", .run = op_run, .test = op_rd },
};
static struct cat_command_group op_grp0 = { .cmd = op_g0, .cmd_num = 2 }, op_grp1 = { .cmd = op_g1, .cmd_num = 4 };
static struct cat_command_group *op_groups[2] = { &op_grp0, &op_grp1 };
static uint8_t op_buf[64], op_ubuf[24], op_buf2[48];
static struct cat_descriptor op_desc = { .cmd_group = op_groups, .cmd_group_num = 2, .buf = op_buf, .buf_size = sizeof op_buf, .unsolicited_buf = op_ubuf, .unsolicited_buf_size = sizeof op_ubuf };
static struct cat_descriptor op_desc2 = { .cmd_group = op_groups, .cmd_group_num = 2, .buf = op_buf2, .buf_size = sizeof op_buf2 };      /* previous life: shared buffer */
static void op_feed(void)
{
        static const char *ln[] = { "AT+P0\n", "AT+P1=5,\"ab\",0102\n", "AT+P2\r\n", "AT+P3?\n", "AT+Q\n", "AT+P5=?\n", "AT+Q=1\n", "AT+P\n", "AT+P1=7", "AT+P5", "at+p3", "AT\n", "AT+P0?\n" };
        op_inlen = op_inpos = 0;
        for (unsigned k = 0, n = 1 + pr_n(&OP, 3); k < n; k++) {
                const char *l = ln[pr_n(&OP, sizeof ln / sizeof ln[0])]; size_t L = strlen(l);
                if (op_inlen + L <= sizeof op_in) { memcpy(op_in + op_inlen, l, L); op_inlen += L; }
        }
}
static void op_steps(struct cat_object *o, unsigned n)
{
        in_other_parser = true;
        for (unsigned i = 0; i < n; i++) {
                if (pr_pct(&OP, 6)) (void)cat_trigger_unsolicited_event(o, &op_g1[pr_n(&OP, 4)], pr_pct(&OP, 50) ? CAT_CMD_TYPE_READ : CAT_CMD_TYPE_TEST);
                if (pr_pct(&OP, 2)) (void)cat_hold_exit(o, CAT_STATUS_OK);
                (void)cat_service(o);
        }
        in_other_parser = false;
}
/* the object about to be handed to cat_init has been another parser before: left idle, in the middle of a line, held by a handler, with events
 * queued or with a response half flushed */
static void prelife(struct cat_object *o)
{
        pr_seed(&OP, rnd(), 0x50524531ULL);
        op_wpct = pr_pct(&OP, 50) ? 100 : 40;
        in_other_parser = true; cat_init(o, &op_desc2, &op_io, NULL); in_other_parser = false;
        op_feed();
        op_steps(o, pr_n(&OP, 120));
        CNT("objects_with_a_previous_life");
        if (cat_is_hold(o) == CAT_STATUS_HOLD) CNT("objects_reinitialised_while_held");
}
void shadow_step(void)
{
        if (!SHADOW) return;
        if (op_inpos >= op_inlen && pr_pct(&OP, 10)) op_feed();
        int save = PHASE;
        op_steps(SHADOW, 1 + pr_n(&OP, 3));
        PHASE = save;
}
void w_reinit(int fillmode)
{
        W.fillmode = fillmode;
        if (fillmode == 3 && W.at != NULL) {          /* 3: cat_init again on the SAME, used object and dirty buffers (an application re-initialising its parser) */
                PHASE = 0; scribble.s = 88172645463325252ULL; MX_DEPTH = 0;
                cat_init(W.at, W.desc, &IO, W.use_mutex ? &MUTEX : NULL);
                return;
        }
        W.at = xalloc(sizeof *W.at);
#ifdef VERIF_MSAN
        fillmode = 2;
#endif
        if (fillmode != 2) {                  /* 2: leave object and buffers as malloc returned them (MSan runs) */
                fill(W.at, sizeof *W.at, fillmode);
                fill(W.buf, W.bufsz, fillmode);
                if (W.ubuf && W.ubufsz) fill(W.ubuf, W.ubufsz, fillmode);
        }
        PHASE = 0;
#ifndef VERIF_MSAN
        if (fillmode == 1 && chance(PRELIFE_PCT)) { prelife(W.at); W.fillmode = 4; }
        if (SHADOW == NULL && fillmode != 3 && chance(SHADOW_PCT)) {
                SHADOW = xalloc(sizeof *SHADOW); memset(SHADOW, 0, sizeof *SHADOW);
                pr_seed(&OP, rnd(), 0x53484144ULL); op_wpct = 70;
                in_other_parser = true; cat_init(SHADOW, &op_desc, &op_io, NULL); in_other_parser = false;
                op_feed();
                CNT("worlds_with_a_second_parser_instance");
        }
#endif
        scribble.s = 88172645463325252ULL;          /* the garbage handed back on refused reads is reproducible per parser instance */
        if (W.use_mutex && chance(25)) {      /* the interface struct is handed over first and filled in before the first API call (the library reads it through the pointer) */
                struct cat_mutex_interface keep = MUTEX; MUTEX.lock = NULL; MUTEX.unlock = NULL;
                cat_init(W.at, W.desc, &IO, &MUTEX);
                MUTEX = keep; CNT("mutex_interfaces_bound_after_cat_init");
        } else cat_init(W.at, W.desc, &IO, W.use_mutex ? &MUTEX : NULL);
}
void w_init(int fillmode)
{
        W.gptr = xalloc(W.ngroups * sizeof *W.gptr);
        for (size_t i = 0; i < W.ngroups; i++) W.gptr[i] = W.grp[i];
        W.desc = xalloc(sizeof *W.desc);
        memset(W.desc, 0, sizeof *W.desc);
        W.desc->cmd_group = W.gptr; W.desc->cmd_group_num = W.ngroups;
        W.desc->buf = W.buf; W.desc->buf_size = W.bufsz;
        W.desc->unsolicited_buf = W.shared ? NULL : W.ubuf;
        W.desc->unsolicited_buf_size = W.shared ? 0 : W.ubufsz;
        if (W.shared && chance(30)) { W.desc->unsolicited_buf_size = chance(50) ? 1 + rn((unsigned)W.bufsz) : chance(50) ? W.bufsz * 2 : (size_t)rnd(); CNT("shared_buffer_descriptors_with_a_left_over_event_buffer_size"); }   /* ignored without an event buffer */
        w_reinit(fillmode);
}
int cmd_index(const struct cat_command *c)
{
        size_t base = 0;
        for (size_t g = 0; g < W.ngroups; g++) {
                const struct cat_command *a = W.grp[g]->cmd;
                size_t n = W.grp[g]->cmd_num;
                if (c >= a && c < a + n) return (int)(base + (size_t)(c - a));
                base += n;
        }
        return -1;
}
bool cmd_enabled(int i) { return !W.cmd[i]->disable && !W.grp[W.grp_of[i]]->disable; }
int var_locate(const struct cat_variable *v, int *vi)
{
        for (size_t i = 0; i < W.ncmds; i++) {
                const struct cat_command *c = W.cmd[i];
                if (c->var && v >= c->var && v < c->var + c->var_num) { if (vi) *vi = (int)(v - c->var); return (int)i; }
        }
        return -1;
}
size_t w_total_var_bytes(void)
{
        size_t n = 0;
        for (size_t i = 0; i < W.ncmds; i++) for (size_t j = 0; j < W.cmd[i]->var_num; j++) n += W.cmd[i]->var[j].data_size;
        return n;
}
void w_save_vars(uint8_t *dst)
{
        for (size_t i = 0; i < W.ncmds; i++) for (size_t j = 0; j < W.cmd[i]->var_num; j++) {
                const struct cat_variable *v = &W.cmd[i]->var[j]; memcpy(dst, v->data, v->data_size); dst += v->data_size; }
}
void w_load_vars(const uint8_t *src)
{
        for (size_t i = 0; i < W.ncmds; i++) for (size_t j = 0; j < W.cmd[i]->var_num; j++) {
                const struct cat_variable *v = &W.cmd[i]->var[j]; memcpy(v->data, src, v->data_size); src += v->data_size; }
}
size_t w_min_cap(void) { size_t need = (W.ncmds + 3) / 4; return need < 6 ? 6 : need; }

/* ==================================================================== io */
struct sched RS, WS;
uint8_t INB[INCAP]; size_t INLEN, INPOS;
uint8_t OUTB[OUTCAP]; char OUTP[OUTCAP]; size_t OUTN;
bool READ_GATE = true; int PHASE;
long N_READ_OK, N_READ_NO, N_WRITE_OK, N_WRITE_NO;
void (*ON_READ)(size_t, uint8_t); void (*ON_READ_REFUSED)(void); void (*ON_WRITE)(bool, char, bool);
void (*ON_UNIT)(bool, bool, const char *, size_t, bool, bool); void (*ON_PHASE)(int);

void sch_eager(struct sched *s) { memset(s, 0, sizeof *s); s->mode = SCH_EAGER; }
void sch_bern(struct sched *s, unsigned pct, uint64_t seed) { memset(s, 0, sizeof *s); s->mode = SCH_BERNOULLI; s->pct = pct; pr_seed(&s->pr, seed, 77); }
void sch_periodic(struct sched *s, unsigned period, unsigned phase) { memset(s, 0, sizeof *s); s->mode = SCH_PERIODIC; s->pct = period ? period : 1; s->pos = phase % s->pct; }
void sch_bits(struct sched *s, const uint8_t *bits, size_t n) { memset(s, 0, sizeof *s); s->mode = SCH_BITS; s->bits = bits; s->nbits = n; }
static bool sch_ready(struct sched *s)
{
        switch (s->mode) {
        case SCH_BERNOULLI: return pr_pct(&s->pr, s->pct);
        case SCH_BITS: if (s->pos < s->nbits) return s->bits[s->pos++] != 0; return true;
        case SCH_PERIODIC: return (unsigned long)CUR_STEP % s->pct == (unsigned long)s->pos;      /* ready in every pct-th service call (time-based, whatever was attempted before) */
        default: return true;
        }
}
void in_reset(void) { INLEN = INPOS = 0; }
void in_put(const void *p, size_t n) { if (INLEN + n <= INCAP) { memcpy(INB + INLEN, p, n); INLEN += n; } }
void in_puts(const char *s) { in_put(s, strlen(s)); }
void in_putc(int c) { uint8_t b = (uint8_t)c; in_put(&b, 1); }
void out_reset(void) { OUTN = 0; }

/* mutex mock */
int MX_DEPTH; long MX_LOCKS, MX_UNLOCKS; long MX_FAIL_LOCK_AT = -1, MX_FAIL_UNLOCK_AT = -1;
void (*ON_LOCK)(bool, int); void (*ON_LOCK_WAIT)(long);
static const int MX_FAIL_VALUES[6] = { 1, -1, 16, -16, 255, -2147483647 - 1 };
bool MX_FOREIGN_CALLER; long MX_FOREIGN_LOCKS;      /* the call in progress is made by another party while the mutex is held: its attempt to lock fails (a timed / try lock), it is not counted among the calls of the history */
static int mx_lock(void)
{
        if (MX_FOREIGN_CALLER && MX_DEPTH != 0) { MX_FOREIGN_LOCKS++; ev(EV_LOCK, -1, 16, 0); return 16; }
        long k = MX_LOCKS++;
        int r = 0;
        if (ON_LOCK_WAIT) ON_LOCK_WAIT(k);      /* the caller waits for the mutex here: whoever holds it may complete whole API calls meanwhile */
        if (k == MX_FAIL_LOCK_AT) r = MX_FAIL_VALUES[k % 6];      /* "0 - ok, else error": any non-zero value */
        else if (MX_DEPTH != 0) { viol("C16", "lock-while-held", "mutex->lock called while the lock is already held"); r = 1; }      /* a non-recursive mutex: the attempt fails (a real one would deadlock) */
        else MX_DEPTH = 1;
        ev(EV_LOCK, k, r, 0);
        if (ON_LOCK) ON_LOCK(true, r);
        return r;
}
static int mx_unlock(void)
{
        long k = MX_UNLOCKS++;
        int r = (k == MX_FAIL_UNLOCK_AT) ? MX_FAIL_VALUES[(k + 3) % 6] : 0;
        if (MX_DEPTH != 1) viol("C16", "unlock-not-held", "mutex->unlock called while the lock is not held");
        if (ON_LOCK) ON_LOCK(false, r);      /* snapshot is taken before the lock is considered released */
        MX_DEPTH = 0;
        ev(EV_UNLOCK, k, r, 0);
        return r;
}
struct cat_mutex_interface MUTEX = { .lock = mx_lock, .unlock = mx_unlock };
static inline void need_lock(const char *what)
{
        if (W.use_mutex && MX_DEPTH != 1) viol("C16", "callback-outside-lock", "%s callback while the lock is not held", what);
}

/* unit tracker */
struct prod PA, PU; long RESULT_CODES, RESULT_OK, RESULT_ERR; char LAST_CODE;
void units_reset(void) { memset(&PA, 0, sizeof PA); memset(&PU, 0, sizeof PU); RESULT_CODES = RESULT_OK = RESULT_ERR = 0; LAST_CODE = 0; }
static void unit_done(struct prod *p, bool isA)
{
        p->st = 0; p->units++;
        if (isA && !p->raw) {
                if (strcmp(p->text, "OK") == 0) { RESULT_CODES++; RESULT_OK++; LAST_CODE = 'O'; }
                else if (strcmp(p->text, "ERROR") == 0) { RESULT_CODES++; RESULT_ERR++; LAST_CODE = 'E'; }
        }
        if (ON_UNIT) ON_UNIT(isA, p->raw, p->text, p->tn, p->lead_crlf, p->trail_crlf);
}
static void unit_feed(struct prod *p, bool isA, char c)
{
        if (p->st == 0) {
                const char *b = (const char *)(isA ? W.bufA : W.bufU);
                size_t cap = isA ? W.capA : W.capU;
                size_t n = cap ? strnlen(b, cap) : 0;
                if (n >= cap || n >= sizeof p->text) { viol("C11", "unit-text-unterminated", "text of a unit is not NUL-terminated inside its buffer"); return; }
                memcpy(p->text, b, n); p->text[n] = 0; p->tn = n; p->tp = 0; p->seen_cr = false; p->lead_crlf = p->trail_crlf = false;
                p->raw = (n > 0 && (b[0] == '\n' || b[0] == '\r' || c == b[0]));
                p->st = p->raw ? 2 : 1;
        }
        switch (p->st) {
        case 1:
                if (c == '\r' && !p->seen_cr) { p->seen_cr = true; p->lead_crlf = true; }
                else if (c == '\n') { p->st = (p->tn == 0) ? 3 : 2; p->seen_cr = false; }
                else viol("C11", "bad-leading-newline", "unit of producer %c does not start with a newline (byte 0x%02x)", isA ? 'A' : 'U', (uint8_t)c);
                break;
        case 2:
                if (p->tp < p->tn && c == p->text[p->tp]) {
                        p->tp++;
                        if (p->tp == p->tn) { if (p->raw) unit_done(p, isA); else p->st = 3; }
                } else {
                        viol("C11", "unit-bytes-differ", "producer %c emitted byte 0x%02x where its buffer text has 0x%02x at %zu of %zu",
                             isA ? 'A' : 'U', (uint8_t)c, (uint8_t)(p->tp < p->tn ? p->text[p->tp] : 0), p->tp, p->tn);
                        p->st = 0;
                }
                break;
        case 3:
                if (c == '\r' && !p->seen_cr) { p->seen_cr = true; p->trail_crlf = true; }
                else if (c == '\n') unit_done(p, isA);
                else { viol("C11", "bad-trailing-newline", "unit of producer %c is not closed by a newline (byte 0x%02x)", isA ? 'A' : 'U', (uint8_t)c); p->st = 0; }
                break;
        }
}

static int io_write(char c)
{
        need_lock("io->write");
        if (PHASE != 1 && PHASE != 2) { viol("C16", "write-outside-service", "io->write called outside cat_service"); return 0; }
        bool isA = PHASE == 2;
        if (!sch_ready(&WS)) {
                N_WRITE_NO++; ev(EV_WRITE_NO, isA, (uint8_t)c, 0);
                if (ON_WRITE) ON_WRITE(isA, c, false);
                return (pr_next(&scribble) & 1) ? 0 : -1;
        }
        struct prod *me = isA ? &PA : &PU, *other = isA ? &PU : &PA;
        if (other->st != 0)
                viol("C11", "interleave", "producer %c wrote 0x%02x while producer %c has an unfinished unit", isA ? 'A' : 'U', (uint8_t)c, isA ? 'U' : 'A');
        unit_feed(me, isA, c);
        if (OUTN < OUTCAP) { OUTB[OUTN] = (uint8_t)c; OUTP[OUTN] = isA ? 'A' : 'U'; OUTN++; }
        N_WRITE_OK++; ev(EV_WRITE, isA, (uint8_t)c, 0);
        if (ON_WRITE) ON_WRITE(isA, c, true);
        return 1;
}
static int io_read(char *ch)
{
        need_lock("io->read");
        if (PHASE != 2) viol("C16", "read-outside-cmd-step", "io->read called outside the command step of cat_service");
        if (!READ_GATE || INPOS >= INLEN || !sch_ready(&RS)) {
                *ch = (char)pr_next(&scribble);          /* hostile but legal: the value is meaningless when 0 is returned */
                N_READ_NO++; ev(EV_READ_NO, (long)INPOS, 0, 0);
                if (ON_READ_REFUSED) ON_READ_REFUSED();
                return 0;
        }
        if (ON_READ) ON_READ(INPOS, INB[INPOS]);
        ev(EV_READ, (long)INPOS, INB[INPOS], 0);
        *ch = (char)INB[INPOS++];
        N_READ_OK++;
        return 1;
}
struct cat_io_interface IO = { .write = io_write, .read = io_read };

/* source hook: producer attribution + half-buffer comparison (C03) */
static uint8_t snapA[8192], snapU[8192];
static uint8_t pair_seen[27 * 11];
static uint8_t *trans_seen; /* (27*11)^2 bits */
static int prev_pair = -1;
void cat_verif_phase(struct cat_object *self, int code)
{
        if (self != W.at || in_other_parser) return;
        if (!RAW_COMPARES) { if (code <= 2) PHASE = code; ev(EV_PHASE, code, 0, 0); if (ON_PHASE) ON_PHASE(code); return; }
        if (code == 1) {
                if (W.capA <= sizeof snapA) memcpy(snapA, W.bufA, W.capA);
        } else if (code == 2) {
                if (W.capA <= sizeof snapA && memcmp(snapA, W.bufA, W.capA) != 0)
                        viol("C03", "event-step-touched-cmd-buffer", "the command buffer changed during the unsolicited step");
                if (W.capU <= sizeof snapU && W.capU) memcpy(snapU, W.bufU, W.capU);
        } else if (code == 0) {
                if (W.capU && W.capU <= sizeof snapU && memcmp(snapU, W.bufU, W.capU) != 0)
                        viol("C03", "cmd-step-touched-event-buffer", "the unsolicited buffer changed during the command step");
                CNT("half_compares");
        }
        if (code <= 2) PHASE = code;
        ev(EV_PHASE, code, 0, 0);
        if (ON_PHASE) ON_PHASE(code);
}

/* handlers */
policy_fn POLICY; vpolicy_fn VPOLICY; long N_HCALL[2][4], N_VCALL[2];
static cat_return_state hcall(const struct cat_command *cmd, int kind, uint8_t *d, size_t *pn, size_t n, size_t m, size_t a)
{
        need_lock("command handler");
        struct hcall h = { .ci = cmd_index(cmd), .kind = kind, .fsm = (PHASE == 1) ? FSM_U : FSM_A, .cmd = cmd,
                           .data = d, .psize = pn, .size = pn ? *pn : n, .max = m, .args_num = a };
        if (PHASE != 1 && PHASE != 2) viol("C16", "handler-outside-service", "command handler called outside cat_service");
        N_HCALL[h.fsm][kind]++;
        ev(EV_HCALL, h.ci, kind, h.fsm);
        cat_return_state r = POLICY ? POLICY(&h) : CAT_RETURN_STATE_OK;
        ev(EV_HRET, h.ci, kind, (long)r);
        return r;
}
cat_return_state h_run(const struct cat_command *cmd) { return hcall(cmd, K_RUN, NULL, NULL, 0, 0, 0); }
cat_return_state h_read(const struct cat_command *cmd, uint8_t *d, size_t *n, size_t m) { return hcall(cmd, K_READ, d, n, 0, m, 0); }
cat_return_state h_write(const struct cat_command *cmd, const uint8_t *d, size_t n, size_t a) { return hcall(cmd, K_WRITE, (uint8_t *)d, NULL, n, 0, a); }
cat_return_state h_test(const struct cat_command *cmd, uint8_t *d, size_t *n, size_t m) { return hcall(cmd, K_TEST, d, n, 0, m, 0); }
static int vcall(const struct cat_variable *v, int dir, size_t n)
{
        need_lock("variable callback");
        int vi = -1, ci = var_locate(v, &vi);
        N_VCALL[dir]++;
        int r = VPOLICY ? VPOLICY(ci, vi, dir, n) : 0;
        ev(EV_VCALL, ci * 16 + vi, dir, (long)n * 4 + (r != 0));
        return r;
}
int hv_read(const struct cat_variable *v) { return vcall(v, 0, 0); }
int hv_write(const struct cat_variable *v, size_t n) { return vcall(v, 1, n); }

/* event log */
struct evrec { uint8_t type; long step, a, b, c; char *note; };
#define EVCAP 1024
static struct evrec evs[EVCAP]; static size_t evn;
void ev_reset(void) { for (size_t i = 0; i < EVCAP; i++) { free(evs[i].note); evs[i].note = NULL; } evn = 0; }
void ev(int type, long a, long b, long c)
{
        struct evrec *e = &evs[evn++ % EVCAP];
        if (e->note) { free(e->note); e->note = NULL; }
        e->type = (uint8_t)type; e->step = CUR_STEP; e->a = a; e->b = b; e->c = c;
}
void ev_note(const char *fmt, ...)
{
        char b[300]; va_list ap; va_start(ap, fmt); vsnprintf(b, sizeof b, fmt, ap); va_end(ap);
        ev(EV_NOTE, 0, 0, 0);
        evs[(evn - 1) % EVCAP].note = strdup(b);
}
static void pch(FILE *f, long b)
{
        if (b == '\n') fprintf(f, "\\n"); else if (b == '\r') fprintf(f, "\\r");
        else if (b < 32 || b > 126) fprintf(f, "\\x%02lx", b & 0xff); else fputc((int)b, f);
}
void ev_dump(FILE *f, int last)
{
        size_t start = evn > EVCAP ? evn - EVCAP : 0;
        if (evn - start > (size_t)last) start = evn - (size_t)last;
        static const char *kn[] = { "run", "read", "write", "test" };
        for (size_t i = start; i < evn; i++) {
                struct evrec *e = &evs[i % EVCAP];
                fprintf(f, "[%ld] ", e->step);
                switch (e->type) {
                case EV_READ: fprintf(f, "read  off=%ld '", e->a); pch(f, e->b); fprintf(f, "'\n"); break;
                case EV_READ_NO: fprintf(f, "read  refused (off=%ld)\n", e->a); break;
                case EV_WRITE: fprintf(f, "write %c '", e->a ? 'A' : 'U'); pch(f, e->b); fprintf(f, "'\n"); break;
                case EV_WRITE_NO: fprintf(f, "write %c '", e->a ? 'A' : 'U'); pch(f, e->b); fprintf(f, "' REFUSED\n"); break;
                case EV_HCALL: fprintf(f, "handler %s of cmd#%ld (%s) on %s FSM\n", kn[e->b & 3], e->a, (e->a >= 0 && (size_t)e->a < W.ncmds) ? W.cmd[e->a]->name : "?", e->c ? "event" : "command"); break;
                case EV_HRET: fprintf(f, "  -> returned %ld\n", e->c); break;
                case EV_VCALL: fprintf(f, "var %s callback cmd#%ld var#%ld size=%ld ret=%s\n", e->b ? "write" : "read", e->a / 16, e->a % 16, e->c / 4, (e->c & 1) ? "FAIL" : "0"); break;
                case EV_LOCK: fprintf(f, "lock #%ld -> %ld\n", e->a, e->b); break;
                case EV_UNLOCK: fprintf(f, "unlock #%ld -> %ld\n", e->a, e->b); break;
                case EV_API: fprintf(f, "api %ld arg=%ld -> %ld\n", e->a, e->b, e->c); break;
                case EV_PHASE: fprintf(f, "hook %ld\n", e->a); break;
                case EV_NOTE: fprintf(f, "%s\n", e->note ? e->note : ""); break;
                }
        }
}

/* structural invariants of the parser object, looked at after every service call (quiescent for the object: nothing runs between two calls).
 * Only facts whose violation makes the NEXT access leave its array or follow a wild pointer (C03), and the bookkeeping of the bounded event ring (C13). */
#ifdef VERIF_NO_OBJECT_INVARIANTS
static void object_invariants(void) {}
#else
static bool in_table(const struct cat_command *c) { return c == NULL || cmd_index(c) >= 0; }
static void object_invariants(void)
{
        const struct cat_object *o = W.at; const struct cat_unsolicited_fsm *u = &o->unsolicited_fsm;
        if (o->desc != W.desc || o->io != &IO || o->commands_num != W.ncmds) viol("C03", "object-invariant", "descriptor / io pointer / command count of the parser object changed");
        if ((int)o->state < (int)CAT_STATE_ERROR || (int)o->state > (int)CAT_STATE_PRINT_CMD) viol("C03", "object-invariant", "command FSM state %d is not a state", (int)o->state);
        if (!in_table(o->cmd) || !in_table(u->cmd)) viol("C03", "object-invariant", "current command pointer of the %s machine points outside the command table", in_table(o->cmd) ? "event" : "command");
        if (u->unsolicited_cmd_buffer_head >= (size_t)QCAP || u->unsolicited_cmd_buffer_tail >= (size_t)QCAP)
                viol("C03", "object-invariant", "event ring index out of range: head %zu tail %zu capacity %d", u->unsolicited_cmd_buffer_head, u->unsolicited_cmd_buffer_tail, QCAP);
        else {
                if (u->unsolicited_cmd_buffer_items_count > (size_t)QCAP || (u->unsolicited_cmd_buffer_head + u->unsolicited_cmd_buffer_items_count) % (size_t)QCAP != u->unsolicited_cmd_buffer_tail)
                        viol("C13", "ring-bookkeeping", "event ring inconsistent: head %zu + count %zu != tail %zu (capacity %d)", u->unsolicited_cmd_buffer_head, u->unsolicited_cmd_buffer_items_count, u->unsolicited_cmd_buffer_tail, QCAP);
                for (size_t k = 0, i = u->unsolicited_cmd_buffer_head; k < u->unsolicited_cmd_buffer_items_count && k < (size_t)QCAP; k++, i = (i + 1) % (size_t)QCAP) {
                        const struct cat_unsolicited_cmd *it = &u->unsolicited_cmd_buffer[i];
                        if (it->cmd == NULL || !in_table(it->cmd) || (it->type != CAT_CMD_TYPE_READ && it->type != CAT_CMD_TYPE_TEST)) { viol("C13", "ring-bookkeeping", "waiting event %zu of %zu is not an accepted event (command %p, type %d)", k, u->unsolicited_cmd_buffer_items_count, (const void *)it->cmd, (int)it->type); break; }
                }
        }
        CNT("object_invariant_checks");
}
#endif
cat_status svc(void)
{
        int pair = OBJ_FIELDS ? (OBJ_STATE() + 1) * 11 + OBJ_USTATE() : -1;      /* coverage accounting only */
        if (pair >= 0 && pair < 27 * 11) {
                pair_seen[pair] = 1;
                if (prev_pair >= 0 && trans_seen) { size_t t = (size_t)prev_pair * 297 + (size_t)pair; trans_seen[t >> 3] |= (uint8_t)(1u << (t & 7)); }
                prev_pair = pair;
        }
        CUR_STEP++;
        if (SHADOW) shadow_step();          /* the other parser instance is serviced in turns with the one under observation */
        long l0 = MX_LOCKS, u0 = MX_UNLOCKS;
        cat_status s = cat_service(W.at);
        PHASE = 0;
        if (W.use_mutex && ON_LOCK_WAIT == NULL) {
                if (MX_LOCKS - l0 != 1) viol("C16", "lock-taken-twice", "cat_service called mutex->lock %ld times in one call", MX_LOCKS - l0);
                else if (s != CAT_STATUS_ERROR_MUTEX_LOCK && MX_UNLOCKS - u0 != 1) viol("C16", "unlock-count", "cat_service called mutex->unlock %ld times in one call", MX_UNLOCKS - u0);
        }
        if (RAW_COMPARES) object_invariants();
        return s;
}
void fmt_bytes(char *dst, size_t cap, const uint8_t *p, size_t n)
{
        size_t o = 0;
        for (size_t i = 0; i < n && o + 5 < cap; i++) {
                uint8_t b = p[i];
                if (b == '\n') o += (size_t)snprintf(dst + o, cap - o, "\\n");
                else if (b == '\r') o += (size_t)snprintf(dst + o, cap - o, "\\r");
                else if (b == '"' || b == '\\') o += (size_t)snprintf(dst + o, cap - o, "\\%c", b);
                else if (b < 32 || b > 126) o += (size_t)snprintf(dst + o, cap - o, "\\x%02x", b);
                else dst[o++] = (char)b;
        }
        dst[o < cap ? o : cap - 1] = 0;
}

/* ================================================================ driver */
/* a crash inside the library during a behavioural (unsanitized) run makes that case inconclusive (memory errors are C03's subject); the run goes on with the next case */
static sigjmp_buf case_jmp; static volatile sig_atomic_t in_case; static long n_crashes;
static void on_crash(int sig)
{
        if (in_case) { in_case = 0; siglongjmp(case_jmp, sig); }
        signal(sig, SIG_DFL); raise(sig);
}
static void on_alarm(int sig)
{
        (void)sig;
        static const char m[] = "WATCHDOG: case exceeded wall-clock limit\n";
        if (write(2, m, sizeof m - 1) < 0) {}
        _exit(3);
}
static void json_str(FILE *f, const char *s)
{
        fputc('"', f);
        for (; *s; s++) {
                unsigned char c = (unsigned char)*s;
                if (c == '"' || c == '\\') fprintf(f, "\\%c", c);
                else if (c == '\n') fprintf(f, "\\n");
                else if (c < 32 || c > 126) fprintf(f, "\\u%04x", c);
                else fputc(c, f);
        }
        fputc('"', f);
}
bool ABORT_ON_VIOL;
unsigned QUERY_PM; static prng_t q;      /* api_queries(): q is reseeded for every case */
void verif_case_reset(void);
static void case_reset(void)
{
        cur_failed = false; CUR_STEP = 0; PHASE = 0; READ_GATE = true;
        ON_READ = NULL; ON_READ_REFUSED = NULL; ON_WRITE = NULL; ON_UNIT = NULL; ON_PHASE = NULL; ON_LOCK = NULL; ON_LOCK_WAIT = NULL;
        POLICY = NULL; VPOLICY = NULL; NEXT_WORLD_USE_MUTEX = false; NOISE_CMD = NULL; NOISE_PM = 0; QUERY_PM = 0; pr_seed(&q, CUR_SEED ^ 0x5155, (uint64_t)CUR_CASE);
        MX_DEPTH = 0; MX_LOCKS = MX_UNLOCKS = 0; MX_FAIL_LOCK_AT = MX_FAIL_UNLOCK_AT = -1;
        sch_eager(&RS); sch_eager(&WS);
        in_reset(); out_reset(); units_reset(); ev_reset();
        prev_pair = -1;
}

void verif_case_reset(void) { case_reset(); }

int verif_main(int argc, char **argv)
{
        uint64_t seed = 1; long from = -1, to = -1, single = -1; const char *outf = NULL, *hashf = NULL; bool info = false;
        for (int i = 1; i < argc; i++) {
                const char *a = argv[i], *v = (i + 1 < argc) ? argv[i + 1] : "";
                if (!strcmp(a, "--seed")) { seed = strtoull(v, 0, 10); i++; }
                else if (!strcmp(a, "--from")) { from = atol(v); i++; }
                else if (!strcmp(a, "--to")) { to = atol(v); i++; }
                else if (!strcmp(a, "--case")) { single = atol(v); i++; }
                else if (!strcmp(a, "--tier")) { TIER = v; i++; }
                else if (!strcmp(a, "--out")) { outf = v; i++; }
                else if (!strcmp(a, "--hashes")) { hashf = v; i++; }
                else if (!strcmp(a, "--replaydir")) { replay_dir = v; i++; }
                else if (!strcmp(a, "--progress")) { progress_fd = open(v, O_WRONLY | O_CREAT | O_TRUNC, 0644); i++; }
                else if (!strcmp(a, "--san")) SAN_REPLAY = true;
                else if (!strcmp(a, "--verbose")) VERBOSE = true;
                else if (!strcmp(a, "--info")) info = true;
                else { fprintf(stderr, "unknown argument %s\n", a); return 2; }
        }
        struct case_budget b = chk_budget(TIER);
        if (info) {
                printf("{\"prog\":\"%s\",\"prop\":\"%s\",\"qcap\":%d,\"sweep\":%ld,\"random\":%ld,\"rule\":", PROG_NAME, MY_PROP, QCAP, b.sweep, b.random);
                json_str(stdout, CHK_RULE); printf("}\n");
                return 0;
        }
        if (single >= 0) { from = single; to = single + 1; VERBOSE = true; }
        if (from < 0) from = 0;
        if (to < 0) to = b.sweep + b.random;
        trans_seen = calloc((297 * 297 + 7) / 8, 1);
        signal(SIGALRM, on_alarm);
        if (!VERIF_ASAN) {
                struct sigaction sa; memset(&sa, 0, sizeof sa); sa.sa_handler = on_crash; sa.sa_flags = SA_NODEFER;
                sigaction(SIGSEGV, &sa, NULL); sigaction(SIGBUS, &sa, NULL); sigaction(SIGFPE, &sa, NULL); sigaction(SIGABRT, &sa, NULL); sigaction(SIGILL, &sa, NULL);
        }
        struct timespec t0; clock_gettime(CLOCK_MONOTONIC, &t0);
        long ncases = 0;
        for (long c = from; c < to; c++) {
                CUR_CASE = c; CUR_SEED = seed;
                if (progress_fd >= 0) { long long v = c; if (pwrite(progress_fd, &v, sizeof v, 0) < 0) {} }
                alarm(30);
                case_reset();
                bool sweep = c < b.sweep;
                pr_seed(&G, sweep ? 0x5EEDF00DULL : seed + 0x1000003ULL * (uint64_t)QCAP, (uint64_t)c);
                int crashed = VERIF_ASAN ? 0 : sigsetjmp(case_jmp, 1);
                if (crashed == 0) {
                        in_case = 1;
                        chk_run_case(seed, c, sweep);
                        in_case = 0;
                        canary_check("end of case");
                } else {
                        char why[80]; snprintf(why, sizeof why, "the library crashed with signal %d (memory errors are C03's subject)", crashed);
                        inconclusive(why); PHASE = 0; MX_DEPTH = 0;
                        if (VERBOSE) fprintf(stderr, "CRASH signal %d in case %ld\n", crashed, c);
                        if (++n_crashes > 500) break;
                }
                ncases++;
                if (single >= 0) { printf("--- scenario ---\n"); chk_describe(stdout); printf("--- event log (tail) ---\n"); ev_dump(stdout, 200); }
                if (nviol_total > 2000) break;
        }
        alarm(0);
        w_begin();
        struct timespec t1; clock_gettime(CLOCK_MONOTONIC, &t1);
        if (progress_fd >= 0) { long long v = -1; if (pwrite(progress_fd, &v, sizeof v, 0) < 0) {} }
        FILE *f = outf ? fopen(outf, "w") : stdout;
        if (!f) { perror("out"); return 2; }
        fprintf(f, "{\"prog\":\"%s\",\"prop\":\"%s\",\"qcap\":%d,\"seed\":%llu,\"from\":%ld,\"to\":%ld,\"cases\":%ld,\"inconclusive\":%ld,",
                PROG_NAME, MY_PROP, QCAP, (unsigned long long)seed, from, to, ncases, n_inconclusive);
        fprintf(f, "\"inconclusive_why\":"); json_str(f, inconc_why);
        fprintf(f, ",\"wall_s\":%.3f,\"violations_total\":%ld,\"foreign\":%ld,\"foreign_keys\":{", (double)(t1.tv_sec - t0.tv_sec) + (double)(t1.tv_nsec - t0.tv_nsec) / 1e9, nviol_total, nforeign);
        for (int i = 0; i < nfk; i++) { if (i) fputc(',', f); json_str(f, foreign_keys[i]); fprintf(f, ":%ld", foreign_cnt[i]); }
        fprintf(f, "},\"io\":{\"reads_delivered\":%ld,\"reads_refused\":%ld,\"writes_accepted\":%ld,\"writes_refused\":%ld},", N_READ_OK, N_READ_NO, N_WRITE_OK, N_WRITE_NO);
        fprintf(f, "\"handler_calls\":{\"cmd\":[%ld,%ld,%ld,%ld],\"event\":[%ld,%ld,%ld,%ld],\"var_read\":%ld,\"var_write\":%ld},",
                N_HCALL[0][0], N_HCALL[0][1], N_HCALL[0][2], N_HCALL[0][3], N_HCALL[1][0], N_HCALL[1][1], N_HCALL[1][2], N_HCALL[1][3], N_VCALL[0], N_VCALL[1]);
        fprintf(f, "\"counters\":{");
        for (int i = 0; i < nctr; i++) { if (i) fputc(',', f); json_str(f, ctr_names[i]); fprintf(f, ":%lld", CTR[i]); }
        fprintf(f, "},\"distinct\":{");
        for (int i = 0; i < ndset; i++) { if (i) fputc(',', f); json_str(f, dsets[i].name); fprintf(f, ":%zu", dsets[i].n); }
        fprintf(f, "},\"state_pairs\":[");
        { bool first = true; for (int i = 0; i < 27 * 11; i++) if (pair_seen[i]) { fprintf(f, "%s%d", first ? "" : ",", i); first = false; } }
        fprintf(f, "],\"transitions\":[");
        { bool first = true; for (size_t t = 0; t < 297 * 297; t++) if (trans_seen[t >> 3] & (1u << (t & 7))) { fprintf(f, "%s%zu", first ? "" : ",", t); first = false; } }
        fprintf(f, "],\"samples\":[");
        for (int i = 0; i < nsamples; i++) { if (i) fputc(',', f); json_str(f, samples[i]); }
        fprintf(f, "],\"violations\":[");
        for (int i = 0; i < nvrec; i++) {
                struct vrec *v = &vrecs[i];
                if (i) fputc(',', f);
                fprintf(f, "{\"prop\":\"%s\",\"key\":", v->prop); json_str(f, v->key);
                fprintf(f, ",\"seed\":%llu,\"case\":%ld,\"step\":%ld,\"msg\":", (unsigned long long)v->seed, v->c, v->step); json_str(f, v->msg);
                fprintf(f, ",\"replay\":"); json_str(f, v->replay); fputc('}', f);
        }
        fprintf(f, "]}\n");
        if (f != stdout) fclose(f);
        if (hashf) {
                FILE *h = fopen(hashf, "wb");
                if (h) {
                        int s = dset_slot("nontrivial");
                        for (size_t i = 0; i < dsets[s].cap; i++) if (dsets[s].tab[i]) fwrite(&dsets[s].tab[i], 8, 1, h);
                        fclose(h);
                }
        }
        return nviol_total ? 1 : 0;
}

/* ============================================================ describing */
void w_describe(FILE *f)
{
        static const char *tn[] = { "INT", "UINT", "HEX", "HEXBUF", "STRING" };
        static const char *an[] = { "RW", "RO", "WO" };
        fprintf(f, "queue capacity %d; buf_size %zu (%s), unsolicited_buf_size %zu; command capacity %zu, event capacity %zu; mutex %s; object prefill %d\n",
                QCAP, W.bufsz, W.shared ? "shared, split in halves" : "separate unsolicited buffer", W.ubufsz, W.capA, W.capU, W.use_mutex ? "yes" : "no", W.fillmode);
        if (W.fillmode == 4) fprintf(f, "the parser object was another parser before cat_init (previous life: 6 commands in groups 2+4, left wherever %s)\n", "its traffic stopped");
        if (SHADOW) fprintf(f, "a second, unrelated parser instance (6 commands in groups 2+4) is serviced in turns with this one\n");
        for (size_t i = 0; i < W.ncmds && i < 80; i++) {
                const struct cat_command *c = W.cmd[i];
                char nb[200]; fmt_bytes(nb, sizeof nb, (const uint8_t *)c->name, strlen(c->name));
                fprintf(f, "  cmd#%zu grp%d%s \"%s\"%s%s%s%s handlers[%s%s%s%s]", i, W.grp_of[i], W.grp[W.grp_of[i]]->disable ? "(disabled)" : "", nb,
                        c->disable ? " DISABLED" : "", c->only_test ? " only_test" : "", c->implicit_write ? " implicit_write" : "", c->need_all_vars ? " need_all" : "",
                        c->run ? "run " : "", c->read ? "read " : "", c->write ? "write " : "", c->test ? "test" : "");
                if (c->description) { fmt_bytes(nb, sizeof nb, (const uint8_t *)c->description, strlen(c->description)); fprintf(f, " desc=\"%s\"", nb); }
                for (size_t j = 0; j < c->var_num; j++) {
                        const struct cat_variable *v = &c->var[j];
                        char vb[200]; if (v->data) fmt_bytes(vb, sizeof vb, v->data, v->data_size > 40 ? 40 : v->data_size); else strcpy(vb, "(no storage)");
                        fprintf(f, "\n      var#%zu %s%zu %s name=%s cb[%s%s] data=\"%s\"", j, (unsigned)v->type < 5 ? tn[v->type] : "?", v->data_size,
                                (unsigned)v->access < 3 ? an[v->access] : "?", v->name ? v->name : "-", v->read ? "r" : "", v->write ? "w" : "", vb);
                }
                fprintf(f, "\n");
        }
        if (W.ncmds > 80) fprintf(f, "  ... %zu commands in total\n", W.ncmds);
}
void io_describe(FILE *f)
{
        static char b[4 * 4096];
        fmt_bytes(b, sizeof b, INB, INLEN > 3000 ? 3000 : INLEN);
        fprintf(f, "input (%zu bytes, %zu consumed): \"%s\"\n", INLEN, INPOS, b);
        size_t from = OUTN > 2000 ? OUTN - 2000 : 0;
        fmt_bytes(b, sizeof b, OUTB + from, OUTN - from);
        fprintf(f, "output (%zu bytes%s): \"%s\"\n", OUTN, from ? ", tail" : "", b);
}

/* background event traffic for checks whose subject is the command FSM: an unsolicited READ / TEST of a dedicated command is formatted and
 * flushed while the line under test is parsed and answered (state shared between the two machines by mistake then shows up in those checks) */
struct cat_command *NOISE_CMD; unsigned NOISE_PM; static prng_t NZ = { 0x9E3779B97F4A7C15ULL };
/* the background command has its own read / test handlers (they do not go through POLICY: the check in charge never sees them).  They do what application
 * handlers usually do - look at the text, report its length through *data_size, sometimes replace it - and they verify what they are handed (C06: "read and
 * test handlers receive the automatically formatted response text, its length and the true capacity") */
static const char NZ_READ[] = "~N=42,A0A1A2A3A4A5A6A7A8A9AAABACADAEAFB0B1B2B3B4B5B6B7,\"n\\\"z,\\\\q\"";
static const char NZ_TEST[] = "~N=<UINT8[RW]>,<HEXBUF[RW]>,<STRING[RO]>";
static cat_return_state nz_handler(const struct cat_command *cmd, uint8_t *d, size_t *n, size_t m, const char *want, bool exact)
{
        (void)cmd;
        need_lock("noise handler");
        size_t wl = strlen(want), L = strnlen((const char *)d, m);
        if (PHASE != 1) viol("C10", "wrong-handler", "handler of an event-only command invoked outside the event step");
        if (m != W.capU) viol("C06", "max-data-size", "event handler told a capacity of %zu, the event buffer has %zu", m, W.capU);
        if (L >= m || *n != L || strncmp((const char *)d, want, wl) != 0 || (exact && L != wl))
                viol("C06", "response-text", "handler of the background event was handed \"%.70s\" (size %zu), the automatic text is \"%s\"...", (const char *)d, *n, want);
        CNT("background_event_handler_calls");
        unsigned r = pr_n(&NZ, 10);
        if (r < 4) { *n = L; return CAT_RETURN_STATE_DATA_OK; }                                   /* the usual "*data_size = strlen(data)" */
        if (r < 6 && m >= 8) { *n = (size_t)snprintf((char *)d, m, "~nz%u", pr_n(&NZ, 100)); return CAT_RETURN_STATE_DATA_OK; }
        if (r < 7) { *n = L; return CAT_RETURN_STATE_DATA_NEXT; }                                 /* once more: the next pass is another call */
        if (r < 8) return CAT_RETURN_STATE_NEXT;
        if (r == 9 && pr_pct(&NZ, 50)) {      /* codes that mean something to the command machine only: for an event they end the event, nothing else happens (no list, no result code, nothing released) */
                CNT("background_event_handlers_returning_list_or_hold_exit_codes");
                return !exact ? CAT_RETURN_STATE_PRINT_CMD_LIST_OK : pr_pct(&NZ, 50) ? CAT_RETURN_STATE_HOLD_EXIT_OK : CAT_RETURN_STATE_HOLD_EXIT_ERROR;
        }
        return r < 9 ? CAT_RETURN_STATE_OK : CAT_RETURN_STATE_ERROR;
}
static cat_return_state nz_read(const struct cat_command *c, uint8_t *d, size_t *n, size_t m) { return nz_handler(c, d, n, m, NZ_READ, true); }
static cat_return_state nz_test(const struct cat_command *c, uint8_t *d, size_t *n, size_t m) { return nz_handler(c, d, n, m, NZ_TEST, false); }
void w_noise_group(unsigned per_mille)
{
        struct cat_command *a = w_group(1, false);
        a[0].name = xstr("~N"); a[0].description = xstr("noise");
        if (pr_pct(&G, 60)) { a[0].read = nz_read; a[0].test = nz_test; }
        struct cat_variable *v = w_vars(&a[0], 3);
        v[0].type = CAT_VAR_UINT_DEC; { uint8_t *d = w_vdata(&v[0], 1); *d = 42; }
        v[1].type = CAT_VAR_BUF_HEX; { uint8_t *d = w_vdata(&v[1], 24); for (int i = 0; i < 24; i++) d[i] = (uint8_t)(0xA0 + i); }
        v[2].type = CAT_VAR_BUF_STRING; v[2].access = CAT_VAR_ACCESS_READ_ONLY; { uint8_t *d = w_vdata(&v[2], 10); memcpy(d, "n\"z,\\q", 7); }
        NOISE_CMD = a; NOISE_PM = per_mille;
        pr_seed(&NZ, CUR_SEED ^ 0x4E5A, (uint64_t)CUR_CASE);
}
/* the read-only part of the public API (lookups by name, busy / hold / queue queries) may be called between any two service calls: it must not disturb the parser */
void api_queries(void)
{
        const struct cat_command *c = W.cmd[pr_n(&q, (unsigned)W.ncmds)];
        switch (pr_n(&q, 8)) {
        case 0: case 1: case 2: { const struct cat_command *f = cat_search_command_by_name(W.at, c->name); if (f == NULL || strcmp(f->name, c->name) != 0) viol("C03", "lookup-returned-wrong-command", "cat_search_command_by_name(\"%s\") returned %s", c->name, f ? f->name : "NULL"); } break;
        case 3: (void)cat_search_command_by_name(W.at, "+NO-SUCH"); (void)cat_search_command_group_by_name(W.at, "none"); break;
        case 4: if (c->var_num) { const char *vn = c->var[pr_n(&q, (unsigned)c->var_num)].name; (void)cat_search_variable_by_name(W.at, c, vn ? vn : "x"); } break;
        case 5: (void)cat_is_busy(W.at); (void)cat_is_hold(W.at); break;
        case 6: (void)cat_is_unsolicited_buffer_full(W.at); (void)cat_is_unsolicited_event_buffered(W.at, c, CAT_CMD_TYPE_READ); break;
        default: { cat_fsm_type t = pr_n(&q, 2) ? CAT_FSM_TYPE_ATCMD : CAT_FSM_TYPE_UNSOLICITED; (void)cat_get_processed_command(W.at, t); } break;
        }
        CNT("api_queries_between_service_calls");
}
long run_quiet(long maxsteps)
{
        for (long i = 0; i < maxsteps; i++) {
                if (QUERY_PM && pr_n(&q, 1000) < QUERY_PM) api_queries();
                if (NOISE_CMD && NOISE_PM && INPOS < INLEN && pr_n(&NZ, 1000) < NOISE_PM) { (void)cat_trigger_unsolicited_event(W.at, NOISE_CMD, pr_pct(&NZ, 60) ? CAT_CMD_TYPE_READ : CAT_CMD_TYPE_TEST); CNT("noise_events_triggered"); }
                cat_status s = svc();
                if (s == CAT_STATUS_OK && INPOS >= INLEN) return i + 1;
        }
        return -1;
}
long quiet_bound(void)
{
        /* generous linear bound used by checks whose subject is not progress: exceeding it makes the case inconclusive there */
        return 4096 + 16 * (long)(INLEN - INPOS + 8) * (long)(W.ncmds + 4) + 64 * (long)W.ncmds * 8;
}
