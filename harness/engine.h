/* General history engine: random tables, request streams, event / hold / back-pressure stimulus,
 * and the step monitors of C01, C11, C14, C15, C18 (each reports under its own property id; a
 * check program only counts its own).  Used directly by chk_C01/C11/C14/C15/C18 and replayed
 * under sanitizers by C03. */
#ifndef VERIF_ENGINE_H
#define VERIF_ENGINE_H
#include "common.h"
#include "refmodel.h"

struct eng_profile {
        unsigned max_cmds;          /* table size limit (<= 64 here) */
        unsigned p_event_step;      /* per-mille chance per service step that the harness triggers an event */
        unsigned p_handler_trigger; /* % chance that a handler invocation triggers an event */
        unsigned p_hold;            /* weight of HOLD among command-handler return codes (0: never) */
        unsigned p_list;            /* weight of PRINT_CMD_LIST_OK */
        unsigned p_weird;           /* weight of out-of-range / HOLD_EXIT codes */
        unsigned p_varcb_fail;      /* % of variable callback invocations that fail */
        unsigned p_backpressure;    /* % of cases with non-eager schedules */
        unsigned p_desc;            /* % of commands with a description */
        unsigned p_garbage_line;    /* % garbage lines */
        unsigned p_long_line;       /* % over-long argument lines */
        unsigned max_lines;
        unsigned p_lookup;          /* per-mille chance per service step that the harness calls the lookup helpers of the public API */
        unsigned p_cut;             /* % of histories whose stimulus phase is cut at a random step (progress measured from mid-flight) */
        unsigned p_read_trigger;    /* per-mille chance per refused read that the read callback raises an event */
        unsigned p_toggle;          /* per-mille chance per service step that the harness flips the disable flag of a command or a group */
        unsigned p_empty_name;      /* % of commands whose name is the empty string (sanitizer workload only) */
        unsigned p_nul;             /* % of lines with a NUL byte in or after them */
        unsigned p_stray_cr;        /* % of request lines with a CR that is not followed by LF */
        bool unspecified_cells;     /* also enter cells the properties leave open (C03 replay only) */
};
extern struct eng_profile EP;
void eng_default_profile(void);

/* scenario pieces */
void eng_gen_table(void);                 /* w_begin .. w_init, installs handlers */
void eng_gen_line(void);                  /* appends one request line to the input */
void eng_gen_input(unsigned nlines);
void eng_random_schedules(void);

/* one complete history over the current world and input; all monitors active */
void eng_run_history(void);
void eng_describe(FILE *f);

/* model state other checks may read */
extern int HOLD_PHASE;                    /* 0 none, 1 held, 2 release requested (2 + consumed => 3) */
extern long EV_WAITING; extern bool EV_INPROGRESS;
extern long LINES_DONE;                   /* non-blank lines whose LF has been delivered */
void eng_monitors_install(void);          /* hook the C01/C11/C14/C15/C18 monitors into the io callbacks */
void eng_after_service(cat_status s);     /* post-step monitors (sampling, probe) */
cat_status eng_trigger(int ci, cat_cmd_type t);
cat_status eng_release_status(void);    /* OK or one of many non-zero values */
void eng_hold_exit(cat_status st);        /* harness-side release request with model bookkeeping */
void eng_spurious_hold_exit(void);
long eng_progress_bound(void);
extern void (*ENG_ON_HANDLER)(struct hcall *h);      /* optional: called first thing in every handler of an engine history (a check may act as another party there) */
extern cat_return_state (*ENG_POLICY_OVERRIDE)(struct hcall *h);   /* optional: decide return codes instead of the weighted draw */
extern prng_t H;                          /* handler-decision stream */

#endif
