/* Executable reference models, written from the property statements and cat.h,
 * sharing no data layout with cat.c: plain string comparison for name
 * resolution, digit-string arithmetic for numbers, string building for the
 * formatters.  They read the descriptor through the harness world (W). */
#ifndef VERIF_REFMODEL_H
#define VERIF_REFMODEL_H
#include "common.h"

enum { RL_BLANK = 0, RL_ERROR, RL_BARE_OK, RL_REQ };
/* why a line is an error (evidence / coverage only) */
enum { RE_NONE = 0, RE_NO_A, RE_NO_T, RE_BAD_NAME_CHAR, RE_EMPTY_NAME_SUFFIX, RE_JUNK_AFTER_Q, RE_JUNK_AFTER_EQ_Q,
       RE_NO_MATCH, RE_AMBIGUOUS, RE_ARGS_TOO_LONG, RE__N };

struct ref_line {
        int cls;                 /* RL_* */
        int err;                 /* RE_* when cls == RL_ERROR */
        int ci;                  /* selected command (RL_REQ) */
        int kind;                /* K_* */
        bool implicit;           /* classified as implicit write */
        bool exact;              /* exact name match (else unique prefix) */
        bool crlf;               /* responses to this line use CRLF */
        uint8_t args[INCAP / 16]; size_t nargs;   /* WRITE: argument bytes, CR removed */
        char typed[640]; size_t ntyped;
};
/* line = bytes of one input line without its LF; capA = command buffer capacity */
void ref_parse_line(const uint8_t *line, size_t len, size_t capA, struct ref_line *r);
int ref_resolve(const char *typed_upper, size_t n, bool *exact, bool *ambiguous);  /* -1: none */

bool ref_readable(const struct cat_command *c);   /* some variable with read access */
bool ref_writable(const struct cat_command *c);
bool ref_has_vars(const struct cat_command *c);

/* what the dispatcher must do with a resolved request */
enum { RG_ERROR = 0,        /* ERROR, no handler, no variable touched */
       RG_RUN_HANDLER,      /* run handler */
       RG_READ,             /* automatic READ text, then read handler if present */
       RG_WRITE,            /* parse variables (if any writable), then write handler if present */
       RG_TEST };           /* automatic TEST text, then test handler if present */
int ref_gate(const struct ref_line *r);

/* formatters: return text length, or -1 when the text cannot be produced (unsupported integer width) */
int ref_fmt_value(const struct cat_variable *v, char *out, size_t cap);
int ref_fmt_read(const struct cat_command *c, char *out, size_t cap);
int ref_fmt_test(const struct cat_command *c, const char *nl, char *out, size_t cap);
/* command list: concatenated raw lines; *longest = longest single flush text; returns length */
size_t ref_fmt_list(char *out, size_t cap, const char *nl, size_t *longest);
bool ref_form_accepted(int ci, int kind);   /* would the dispatcher accept this request form for command ci (by its full name, ignoring shadowing) */

/* argument decoding */
enum { RV_NOT_REACHED = 0, RV_ACCEPTED, RV_REJECTED };
struct ref_wres {
        bool ok;                 /* whole argument list accepted (write handler / OK follows) */
        bool unspecified;        /* a read-only numeric field is grammatical but out of range: outcome not specified */
        size_t parsed;           /* variables parsed = args_num for the write handler */
        int fail_at;             /* index of the rejected field, -1: none (surplus / need_all failure have -1) */
        struct {
                int status; size_t write_size;
                uint8_t val[80]; size_t nval;      /* bytes [0,nval) the variable must hold when accepted and writable */
                bool stores;                       /* false for read-only */
        } v[MAXVAR];
};
void ref_parse_args(const struct cat_command *c, const uint8_t *args, size_t n, struct ref_wres *res);
/* digit-string numerics (exposed for the oracle self-test) */
/* returns 1 accepted (value bytes in out[0..size)), 0 rejected */
int ref_num(int type, size_t size, const uint8_t *s, size_t n, uint8_t *out);
bool ref_num_grammar(int type, const uint8_t *s, size_t n);

#endif
