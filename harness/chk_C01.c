/* C01 — exactly one result code per non-blank line, in order, no read-ahead.
 * Step monitor (engine.c on_read / on_unit): at every delivered input byte the number of complete
 * result-code units equals the number of non-blank lines that ended before it. */
#include "engine.h"

const char *CHK_RULE = "one case = one command table + one input stream (sweep: a prefix-family table with 98 name x suffix x terminator lines; random: 1..12 generated lines "
                       "under random io schedules with event, hold and list traffic); non-trivial = the stream contains a non-blank line; distinct by (table size, sequence of "
                       "reference line classes, schedule kind)";

static const char *fam[6] = { "+T", "+TA", "+TB", "+TAB", "Z", "+" };
static cat_return_state ok_policy(struct hcall *h) { (void)h; return CAT_RETURN_STATE_OK; }
static char mode[64];
void chk_describe(FILE *f) { fprintf(f, "%s\n", mode); eng_describe(f); }

static void classify_stream(void)
{
        uint64_t h = hash_u64(W.ncmds, 1); size_t ls = 0; long nb = 0;
        for (size_t i = 0; i < INLEN; i++) {
                if (INB[i] != '\n') continue;
                struct ref_line r; ref_parse_line(INB + ls, i - ls, W.capA, &r);
                h = hash_u64((uint64_t)(r.cls * 64 + r.err * 4 + (r.kind & 3)), h);
                switch (r.cls) {
                case RL_BLANK: CNT("lines_blank"); break;
                case RL_BARE_OK: CNT("lines_bare_at"); nb++; break;
                case RL_REQ: CNT("lines_resolved_request"); nb++; break;
                default: nb++;
                        switch (r.err) {
                        case RE_NO_A: CNT("lines_err_no_A"); break; case RE_NO_T: CNT("lines_err_no_T"); break;
                        case RE_BAD_NAME_CHAR: CNT("lines_err_bad_name_char"); break; case RE_EMPTY_NAME_SUFFIX: CNT("lines_err_empty_name_suffix"); break;
                        case RE_JUNK_AFTER_Q: CNT("lines_err_junk_after_?"); break; case RE_JUNK_AFTER_EQ_Q: CNT("lines_err_junk_after_=?"); break;
                        case RE_NO_MATCH: CNT("lines_err_no_match"); break; case RE_AMBIGUOUS: CNT("lines_err_ambiguous"); break;
                        case RE_ARGS_TOO_LONG: CNT("lines_err_args_too_long"); break; default: break;
                        }
                }
                ls = i + 1;
        }
        if (nb) nontrivial(hash_u64(RS.mode * 2 + WS.mode, h));
}

/* sweep (i): ordered tables of <= 4 distinct family names */
static long n_tables(void) { return 6 + 30 + 120 + 360; }
static void sweep_case(long item)
{
        int k, pick[4], n = 0; long idx = item;
        if (idx < 6) n = 1; else if ((idx -= 6) < 30) n = 2; else if ((idx -= 30) < 120) n = 3; else { idx -= 120; n = 4; }
        bool used[6] = { 0 };
        for (k = 0; k < n; k++) {
                int avail = 6 - k, sel = (int)(idx % avail); idx /= avail;
                for (int q = 0; q < 6; q++) if (!used[q]) { if (sel == 0) { pick[k] = q; used[q] = true; break; } sel--; }
        }
        w_begin();
        struct cat_command *arr = w_group((size_t)n, false);
        for (k = 0; k < n; k++) { arr[k].name = xstr(fam[pick[k]]); arr[k].run = h_run; arr[k].read = h_read; arr[k].write = h_write; arr[k].test = h_test; }
        w_buffers(64, (item & 1) != 0, 32);
        w_init((int)(item & 1));
        in_reset();
        static const char *typed[7] = { "+", "+T", "+TA", "+TB", "+TAB", "Z", "+TABX" };
        static const char *sfx[7] = { "", "?", "=", "=?", "=ATZ", "?x", "=?x" };
        for (int t = 0; t < 7; t++) for (int s = 0; s < 7; s++) for (int e = 0; e < 2; e++) {
                in_puts("AT"); in_puts(typed[t]); in_puts(sfx[s]); in_puts(e ? "\r\n" : "\n");
        }
        snprintf(mode, sizeof mode, "sweep: prefix-family table #%ld", item);
        EP.p_event_step = 0; EP.p_handler_trigger = 0;
        ENG_POLICY_OVERRIDE = ok_policy;
        sch_eager(&RS); sch_eager(&WS);
        classify_stream();
        eng_run_history();
        ENG_POLICY_OVERRIDE = NULL;
}

/* sweep (ii): a held line is released while the application keeps the event queue occupied (a periodic report re-triggered whenever there is room):
 * with an always-ready output its result code is out after one unit of the other producer at most, and the line behind it is answered too */
#define N_LOAD 16
static cat_return_state load_policy(struct hcall *h) { if (h->fsm == FSM_A && h->ci == 0 && HOLD_PHASE == 0 && LINES_DONE <= 1) return CAT_RETURN_STATE_HOLD; return h->fsm == FSM_U ? CAT_RETURN_STATE_DATA_OK : CAT_RETURN_STATE_OK; }
static void sweep_load(long item)
{
        bool shared = item & 1, crlf = item & 2; int kind = (int)((item >> 2) & 3);
        snprintf(mode, sizeof mode, "sweep: hold (handler kind %d) released while the event queue is kept occupied", kind);
        w_begin();
        struct cat_command *arr = w_group(2, false);
        arr[0].name = xstr("+H"); arr[0].run = h_run; arr[0].read = h_read; arr[0].write = h_write; arr[0].test = h_test;
        arr[1].name = xstr("+E"); arr[1].read = h_read; { struct cat_variable *v = w_vars(&arr[1], 1); v->type = CAT_VAR_UINT_DEC; uint8_t *d = w_vdata(v, 1); *d = 5; }
        w_buffers(shared ? 96 : 48, shared, 40);
        w_init((int)(item & 1));
        static const char *forms[4] = { "AT+H", "AT+H?", "AT+H=1", "AT+H=?" };
        in_reset(); in_puts(forms[kind]); in_puts(crlf ? "\r\n" : "\n"); in_puts("AT+E?\n");
        sch_eager(&RS); sch_eager(&WS);
        eng_monitors_install();
        ENG_POLICY_OVERRIDE = load_policy; EP.p_handler_trigger = 0;
        long guard = 0;
        while (HOLD_PHASE != 1 && guard++ < 5000) { cat_status st = svc(); eng_after_service(st); if (case_failed()) goto out; }
        if (HOLD_PHASE != 1) { inconclusive("sweep never reached the hold"); goto out; }
        eng_hold_exit(CAT_STATUS_OK);
        long B = 4 * (long)(W.capA + W.capU) + 200, used = 0;
        for (; used < B && RESULT_CODES < 1; used++) {
                if (cat_is_unsolicited_buffer_full(W.at) == CAT_STATUS_OK) eng_trigger(1, (used & 1) ? CAT_CMD_TYPE_TEST : CAT_CMD_TYPE_READ);
                cat_status st = svc(); eng_after_service(st); if (case_failed()) goto out;
        }
        CNT("releases_under_continuous_event_load");
        if (RESULT_CODES < 1) { viol("C01", "line-never-answered", "the released line has no result code after %ld service calls although the output accepts every byte (the event queue is kept occupied)", B); goto out; }
        if (run_quiet(eng_progress_bound()) < 0) { viol("C15", "no-quiescence", "no quiescence after the event load stopped"); goto out; }
        eng_after_service(CAT_STATUS_BUSY);
        if (RESULT_CODES != 2 && !case_failed()) viol("C01", "final-count", "%ld result codes for 2 lines", RESULT_CODES);
out:
        ENG_POLICY_OVERRIDE = NULL;
}
/* sweep (iii): lines made of one byte sequence that means something to terminals, modems or editors (byte order marks, "A/", ";", "+++", telnet and
 * ANSI sequences): alone, repeated, in front of and behind a request; each of them is a non-blank line and owed one result code */
static void sweep_lore(long item)
{
        const char *tok = LORE[item];
        snprintf(mode, sizeof mode, "sweep: lines built from byte sequence #%ld of the terminal-lore dictionary", item);
        w_begin();
        struct cat_command *arr = w_group(2, false);
        arr[0].name = xstr("+PING"); arr[0].run = h_run; arr[0].read = h_read;
        arr[1].name = xstr("D"); arr[1].write = h_write; arr[1].implicit_write = true;
        w_buffers(64, (item & 1) != 0, 32);
        w_init((int)(item & 1));
        in_reset();
        for (int rep = 1; rep <= 3; rep++) for (int e = 0; e < 2; e++) for (int form = 0; form < 5; form++) {
                if (form == 1) in_puts("AT+PING"); if (form == 2) in_puts("AT"); if (form == 4) in_puts("ATD");
                for (int q = 0; q < rep; q++) in_puts(tok);
                if (form == 3) in_puts("AT+PING");
                in_puts(e ? "\r\n" : "\n");
                if (form == 0) in_puts("AT+PING\n");
        }
        EP.p_event_step = 0; EP.p_handler_trigger = 0;
        ENG_POLICY_OVERRIDE = ok_policy;
        sch_eager(&RS); sch_eager(&WS);
        classify_stream();
        eng_run_history();
        ENG_POLICY_OVERRIDE = NULL;
        CNT("lore_sequences_swept");
}
struct case_budget chk_budget(const char *tier)
{
        struct case_budget b = { n_tables() + N_LOAD + (long)N_LORE, strcmp(tier, "thorough") == 0 ? 8000000 : 200000 };
        return b;
}
void chk_run_case(uint64_t seed, long c, bool is_sweep)
{
        (void)seed;
        eng_default_profile();
        if (is_sweep) { if (c < n_tables()) sweep_case(c); else if (c < n_tables() + N_LOAD) sweep_load(c - n_tables()); else sweep_lore(c - n_tables() - N_LOAD); return; }
        snprintf(mode, sizeof mode, "random history");
        if (chance(30)) { EP.p_event_step = 0; EP.p_handler_trigger = 0; }
        if (chance(20)) EP.max_cmds = 40;
        if (chance(15)) { NEXT_WORLD_USE_MUTEX = true; EP.p_handler_trigger = 0; CNT("histories_with_a_mutex_interface"); }      /* an application with a (non-recursive) mutex: a lock the library forgets to release stops every later call */
        eng_gen_table();
        NEXT_WORLD_USE_MUTEX = false;
        eng_gen_input(1 + rn(12));
        eng_random_schedules();
        classify_stream();
        eng_run_history();
        if (sample_wanted()) { char b[400]; fmt_bytes(b, sizeof b, INB, INLEN > 120 ? 120 : INLEN); sample_printf("%zu commands, input \"%s\"%s -> %ld result codes for %ld non-blank lines", W.ncmds, b, INLEN > 120 ? "..." : "", RESULT_CODES, LINES_DONE); }
}
int main(int argc, char **argv) { MY_PROP = "C01"; PROG_NAME = "chk_C01"; return verif_main(argc, argv); }
