/* Shared by chk_C04 (numeric arguments) and chk_C05 (hex-buffer / string arguments):
 * one WRITE line against one command with 1..4 variables, judged against the reference decoder
 * (refmodel.c ref_parse_args: digit-string arithmetic, byte-string decoding).
 * Projection compared: result code, variable bytes before/after, var->write calls with their write_size,
 * presence of the command write handler call and its args_num.  A mismatch is reported under the property
 * that owns the type of the variable at fault (numeric: C04, buffer/string: C05). */
#include "argcheck.h"

struct arg_field AF[MAXVAR + 2]; int NAF;
static uint8_t *before[MAXVAR];
static struct { int vi; size_t ws; } vw[16]; static int nvw;
static int wh_calls; static size_t wh_argsnum;
static char line_desc[900];
char ARG_NOTE[200];
size_t ARG_CAP_HINT;      /* 0: generous command capacity; else the capacity to use (callers pass argument length + 1 .. + 3 for a tight fit) */

static cat_return_state policy(struct hcall *h) { if (h->kind == K_WRITE) { wh_calls++; wh_argsnum = h->args_num; } return CAT_RETURN_STATE_OK; }
static int vpolicy(int ci, int vi, int dir, size_t ws) { (void)ci; if (dir == 1) { if (nvw < 16) { vw[nvw].vi = vi; vw[nvw].ws = ws; } nvw++; } return 0; }

static long late_event_at; static bool target_implicit;
static struct cat_command *late_target;
static void on_read(size_t off, uint8_t ch) { (void)ch; if ((long)off == late_event_at) { (void)cat_trigger_unsolicited_event(W.at, late_target ? late_target : NOISE_CMD, chance(50) ? CAT_CMD_TYPE_READ : CAT_CMD_TYPE_TEST); CNT("events_raised_while_the_line_ends"); } }
void args_describe(FILE *f) { w_describe(f); fprintf(f, "%s\n%s\n", line_desc, ARG_NOTE); io_describe(f); }

static const char *prop_of(const struct cat_variable *v) { return v->type <= CAT_VAR_NUM_HEX ? "C04" : "C05"; }

/* world: command "+S" with the variables described by AF[0..nv) ; returns the command */
struct cat_command *args_world(int nv, bool with_handler, bool need_all, bool shared)
{
        w_begin();
        /* the target "+S" sits in a table of 2..60 commands: the argument text shares the working buffer with the per-command match flags,
         * so the bytes behind the argument terminator differ with the table shape (neighbours that are prefixes / extensions of the name,
         * disabled ones, unrelated ones) */
        size_t ncmd = chance(40) ? 2 : 2 + rn(chance(50) ? 12 : 59), tpos = rn(ncmd);
        struct cat_command *arr = w_group(ncmd, false);
        struct cat_command *c = &arr[tpos];
        c->name = xstr("+S"); c->need_all_vars = need_all; c->write = with_handler ? h_write : NULL;
        c->implicit_write = target_implicit = chance(15);      /* "AT+S<arguments>": the arguments start right behind the name */
        for (size_t i = 0; i < ncmd; i++) {
                if (i == tpos) continue;
                char nm[16]; unsigned k = rn(6);
                if (k == 0) snprintf(nm, sizeof nm, "+S%c", 'A' + (int)rn(4)); else if (k == 1) snprintf(nm, sizeof nm, "+SET%zu", i); else if (k == 2) snprintf(nm, sizeof nm, "+"); else snprintf(nm, sizeof nm, "+O%zu", i);
                arr[i].name = xstr(nm); arr[i].run = h_run; arr[i].disable = chance(20);
                if (k == 2 && i < tpos) arr[i].disable = true;
                if (k == 2 && arr[i].disable && chance(50)) { arr[i].run = NULL; arr[i].write = h_write; arr[i].implicit_write = true; }      /* a disabled implicit-write command whose name is a prefix of the target's: invisible, so it must not cut the name */            /* an enabled "+" before "+S" would only matter for abbreviations; keep "+S" reachable by its full name */
        }
        struct cat_variable *v = w_vars(c, (size_t)nv);
        for (int j = 0; j < nv; j++) {
                v[j].type = (cat_var_type)AF[j].type; v[j].access = (cat_var_access)AF[j].access; v[j].name = NULL;
                uint8_t *d = w_vdata(&v[j], AF[j].size);
                for (size_t b = 0; b < AF[j].size; b++) d[b] = (uint8_t)rnd();
                v[j].write = AF[j].no_callback ? NULL : hv_write;
                before[j] = xalloc(AF[j].size);
        }
        if (chance(25)) w_noise_group(30 + rn(150));      /* background event traffic while the arguments are collected and decoded */
        size_t cap = ARG_CAP_HINT ? ARG_CAP_HINT : 2500;
        if (cap < w_min_cap()) cap = w_min_cap();
        w_buffers(shared ? cap * 2 + rn(2) : cap, shared, 32 + rn(80));
        w_init((int)rn(2));
        POLICY = policy; VPOLICY = vpolicy;
        return c;
}

/* feed "AT+S=<args>" and judge. args may contain any byte except LF/NUL/CR */
void args_run_and_judge(struct cat_command *c, const uint8_t *args, size_t n, const char *focus_prop)
{
        int nv = (int)c->var_num;
        uint8_t *a2 = NULL;
        if (target_implicit && chance(15)) {      /* "AT+S=<arguments>" to an implicit-write command: the '=' is the first argument byte */
                a2 = xalloc(n + 1); a2[0] = '='; memcpy(a2 + 1, args, n); args = a2; n++;
                CNT("implicit_write_lines_with_an_equals_sign_in_front_of_the_arguments");
        }
        {       /* what a numeric variable held before is not independent of what is written now: the same value again, or a value that agrees with the new one
                 * in its low half (a counter that wrapped, a register written back with one field changed) */
                struct ref_wres pre; ref_parse_args(c, args, n, &pre);
                for (int j = 0; j < nv; j++) {
                        const struct cat_variable *v = &c->var[j];
                        if (v->type > CAT_VAR_NUM_HEX || pre.v[j].status != RV_ACCEPTED || pre.v[j].nval != v->data_size || !chance(15)) continue;
                        memcpy(v->data, pre.v[j].val, v->data_size);
                        if (v->data_size >= 2 && chance(70)) { uint8_t *d = v->data; for (size_t b = v->data_size / 2; b < v->data_size; b++) d[b] = (uint8_t)rnd(); CNT("numeric_variables_that_held_a_value_with_the_same_low_half"); }
                        else CNT("numeric_variables_that_already_held_the_written_value");
                }
        }
        for (int j = 0; j < nv; j++) memcpy(before[j], c->var[j].data, c->var[j].data_size);
        if (chance(10)) {
                /* the application had (some of) the variables locked before: a request was served under other access flags, then the flags were set to what
                 * this line is judged with (the table belongs to the application; like the disable flags, the access flags are looked at when a request is served) */
                cat_var_access keep[MAXVAR]; struct cat_variable *vv = (struct cat_variable *)c->var;
                for (int j = 0; j < nv; j++) { keep[j] = vv[j].access; vv[j].access = chance(70) ? CAT_VAR_ACCESS_READ_ONLY : (cat_var_access)rn(3); }
                unsigned form = rn(4);
                in_reset(); in_puts("AT+S");
                if (form < 2) { if (!target_implicit) in_putc('='); in_put(args, n); } else if (form == 2 && !target_implicit) in_puts("?"); else if (!target_implicit) in_puts("=?");
                in_putc('\n');
                ON_READ = NULL;
                if (run_quiet(quiet_bound() + 4 * (long)n) < 0) { inconclusive("no quiescence (C15's subject)"); return; }
                for (int j = 0; j < nv; j++) { vv[j].access = keep[j]; memcpy(vv[j].data, before[j], vv[j].data_size); }
                CNT("lines_after_a_request_served_under_other_access_flags");
        }
        nvw = 0; wh_calls = 0; wh_argsnum = 0;
        in_reset(); in_puts(chance(50) ? "AT+S" : "at+s"); if (!target_implicit) in_putc('='); else CNT("lines_to_an_implicit_write_command"); in_put(args, n); in_putc('\n');
        late_event_at = (NOISE_CMD && chance(50)) ? (long)INLEN - 1 - (long)rn(3) : -1;
        late_target = NULL;
        if (chance(12)) { late_target = c; late_event_at = (long)INLEN - 1 - (long)rn(6); CNT("events_of_the_written_command_itself_raised_while_the_line_ends"); }      /* a READ / TEST event of the very command that is being written */      /* an event raised while the last argument bytes / the LF arrive: it is formatted next to the complete argument text */
        ON_READ = on_read;
        out_reset(); units_reset();
        { char ab[700]; fmt_bytes(ab, sizeof ab, args, n > 200 ? 200 : n); snprintf(line_desc, sizeof line_desc, "arguments (%zu bytes): \"%s\"%s", n, ab, n > 200 ? "..." : ""); }
        if (run_quiet(quiet_bound() + 4 * (long)n) < 0) { inconclusive("no quiescence (C15's subject)"); return; }
        { struct ref_line rl; ref_parse_line(INB, INLEN - 1, W.capA, &rl);
          if (rl.cls == RL_ERROR && rl.err == RE_ARGS_TOO_LONG) {
                /* the argument text does not fit the command buffer (with its terminator): ERROR, nothing decoded, nothing stored, no handler */
                CNT("lines_one_or_more_bytes_too_long");
                bool changed = false; for (int j = 0; j < nv; j++) if (memcmp(c->var[j].data, before[j], c->var[j].data_size) != 0) changed = true;
                if (!(RESULT_CODES == 1 && LAST_CODE == 'E') || wh_calls != 0 || nvw != 0 || changed)
                        viol(focus_prop, "over-long-line-not-rejected", "%zu argument bytes on a command capacity of %zu: result %c, %d handler call(s), %d variable callback(s), variables %s", n, W.capA, LAST_CODE ? LAST_CODE : '-', wh_calls, nvw, changed ? "changed" : "unchanged");
                return;
          }
          if (rl.cls != RL_REQ || rl.kind != K_WRITE || W.cmd[rl.ci] != c) { CNT("lines_not_a_write_request_skipped"); return; } }   /* e.g. '?' as first byte turns the line into a TEST request */
        if (!ref_writable(c)) {
                /* nothing writable: the arguments are not decoded at all; the write handler (if any) gets the raw text, otherwise ERROR (gating, C08/C09) */
                CNT("lines_without_writable_variable");
                bool ok1 = RESULT_CODES == 1 && LAST_CODE == (c->write ? 'O' : 'E');
                if (!ok1 || wh_calls != (c->write ? 1 : 0) || nvw != 0 || (c->write && wh_argsnum != 0))
                        viol("C08", "write-gating", "command without writable variable: result %c, %d handler call(s), %d variable callbacks", LAST_CODE ? LAST_CODE : '-', wh_calls, nvw);
                for (int j = 0; j < nv; j++) if (memcmp(c->var[j].data, before[j], c->var[j].data_size) != 0) viol("C08", "read-only-modified", "read-only variable %d changed", j);
                return;
        }
        canary_check("after the WRITE line");
        if (case_failed()) return;
        struct ref_wres res; ref_parse_args(c, args, n, &res);
        if (res.unspecified) { CNT("lines_in_unspecified_cell_skipped"); return; }
        CNT("lines_judged");
        bool got_ok = RESULT_CODES == 1 && LAST_CODE == 'O', got_err = RESULT_CODES == 1 && LAST_CODE == 'E';
        const char *pfail = res.fail_at >= 0 ? prop_of(&c->var[res.fail_at]) : focus_prop;
        if (!got_ok && !got_err) { viol(pfail, "no-single-result-code", "%ld result codes for one WRITE line", RESULT_CODES); return; }
        if (res.ok && !got_ok) { viol(pfail, "rejected-though-well-formed", "all %zu argument(s) are well-formed and in range but the answer is ERROR", res.parsed); return; }
        if (!res.ok && got_ok) {
                const char *key = res.fail_at >= 0 ? (c->var[res.fail_at].type <= CAT_VAR_NUM_HEX ? "stored-though-out-of-range" : "accepted-though-malformed") : "accepted-with-surplus-or-missing-arguments";
                viol(pfail, key, "argument %d is malformed / out of range (or the count is wrong) but the answer is OK", res.fail_at + 1); return;
        }
        /* command write handler */
        if (res.ok && c->write && (wh_calls != 1 || wh_argsnum != res.parsed)) { viol(focus_prop, "write-handler-call", "write handler called %d time(s) with args_num %zu, expected once with %zu", wh_calls, wh_argsnum, res.parsed); return; }
        if (!res.ok && wh_calls != 0) { viol(pfail, "write-handler-after-rejected-argument", "write handler was invoked although the argument list was rejected"); return; }
        /* variable bytes */
        for (int j = 0; j < nv; j++) {
                const struct cat_variable *v = &c->var[j]; const uint8_t *d = v->data; const char *pj = prop_of(v);
                bool same_old = memcmp(d, before[j], v->data_size) == 0;
                if (v->access == CAT_VAR_ACCESS_READ_ONLY) { if (!same_old) { viol("C08", "read-only-modified", "read-only variable %d changed", j); viol(pj, "read-only-modified", "read-only variable %d changed", j); return; } continue; }
                switch (res.v[j].status) {
                case RV_ACCEPTED: {
                        bool is_new = memcmp(d, res.v[j].val, res.v[j].nval) == 0;
                        if (res.ok) { if (!is_new) { viol(pj, "stored-value-wrong", "variable %d does not hold the value of its argument after OK", j); return; } }
                        else if (v->type <= CAT_VAR_NUM_HEX && !is_new && !same_old) { viol(pj, "stored-value-wrong", "variable %d holds neither its old nor the argument's value after ERROR", j); return; }
                        if (v->type <= CAT_VAR_NUM_HEX) CNT("numeric_fields_accepted"); else CNT("buffer_fields_accepted");
                } break;
                case RV_REJECTED:
                        if (v->type <= CAT_VAR_NUM_HEX) { CNT("numeric_fields_rejected"); if (!same_old) { viol("C04", "changed-on-error", "variable %d changed although its argument was rejected", j); return; } }
                        else CNT("buffer_fields_rejected");
                        break;
                default:
                        if (!same_old) { viol(pj, "unreached-variable-changed", "variable %d changed although no argument reached it", j); return; }
                }
        }
        /* variable write callbacks: one per accepted field, in order, with the decoded size */
        int e = 0;
        for (int j = 0; j < nv && res.v[j].status == RV_ACCEPTED; j++) {
                if (!c->var[j].write) continue;
                if (e >= nvw || vw[e].vi != j || vw[e].ws != res.v[j].write_size) {
                        viol(prop_of(&c->var[j]), "write-callback-size", "var->write for variable %d: observed call #%d = (var %d, size %zu), expected size %zu", j, e, e < nvw ? vw[e].vi : -1, e < nvw ? vw[e].ws : 0, res.v[j].write_size);
                        return;
                }
                e++;
        }
        if (nvw != e) { viol(focus_prop, "write-callback-count", "%d var->write calls, expected %d", nvw, e); return; }
}
