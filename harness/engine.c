#include "engine.h"

struct eng_profile EP;
prng_t H;
int HOLD_PHASE; long EV_WAITING; bool EV_INPROGRESS; long LINES_DONE;
cat_return_state (*ENG_POLICY_OVERRIDE)(struct hcall *h);

static bool line_nonblank, stim_on, taint_hold;
static unsigned chain_budget[2];
static unsigned payload_seq;
static char owed[2][4096]; static bool owed_set[2];
static unsigned hold_statuses;            /* bit0: OK requested, bit1: ERROR requested */
static int pend_retry[2];                 /* byte refused last time per producer, -1 none */
static unsigned sched_r, sched_w;
static long holds_seen, holds_with_input, releases_api, releases_event, hold_release_step;
static int hold_kind, hold_paths;
static struct { int ci, type; } evq[32]; static int evq_n; static int ev_cur_ci = -1;     /* accepted events in acceptance order; the one whose unit is owed next */
#define CHAIN_BUDGET 3

void eng_default_profile(void)
{
        memset(&EP, 0, sizeof EP);
        EP.max_cmds = 16; EP.p_event_step = 20; EP.p_handler_trigger = 20; EP.p_hold = 10; EP.p_list = 7; EP.p_weird = 13;
        EP.p_varcb_fail = 3; EP.p_backpressure = 50; EP.p_desc = 25; EP.p_garbage_line = 6; EP.p_long_line = 8; EP.max_lines = 8; EP.p_cut = 15; EP.p_lookup = 4; EP.p_toggle = 5; EP.p_read_trigger = 8; EP.p_empty_name = 0; EP.p_nul = 3; EP.p_stray_cr = 4;
}

/* ------------------------------------------------------------ model hooks */
static void on_phase(int code)
{
        if (code == 3) {
                if (EV_WAITING <= 0) viol("C13", "dequeue-from-empty", "an event was dequeued although none was waiting");
                else EV_WAITING--;
                if (evq_n > 0) { ev_cur_ci = evq[0].ci; memmove(evq, evq + 1, sizeof evq[0] * (size_t)(evq_n - 1)); evq_n--; } else ev_cur_ci = -1;
                if (EV_INPROGRESS) viol("C13", "dequeue-while-busy", "an event was dequeued while another one is in progress");
                EV_INPROGRESS = true; chain_budget[FSM_U] = CHAIN_BUDGET;
        } else if (code == 4) {
                EV_INPROGRESS = false;
        }
}
static void on_read(size_t off, uint8_t ch)
{
        if (RESULT_CODES != LINES_DONE) {
                if (RESULT_CODES < LINES_DONE)
                        viol("C01", "read-before-code", "input offset %zu consumed while only %ld result codes were complete for %ld finished non-blank lines", off, RESULT_CODES, LINES_DONE);
                else
                        viol("C01", "extra-code", "%ld result codes for %ld finished non-blank lines when offset %zu is consumed", RESULT_CODES, LINES_DONE, off);
        }
        if (HOLD_PHASE == 1 && !taint_hold) viol("C14", "read-during-hold", "input offset %zu consumed while the command is held and no release was requested", off);
        if (ch == '\n') { if (line_nonblank) LINES_DONE++; line_nonblank = false; }
        else if (ch != '\r') line_nonblank = true;
}
static void on_write(bool isA, char c, bool accepted)
{
        int p = isA ? 0 : 1;
        if (pend_retry[p] >= 0 && pend_retry[p] != (uint8_t)c)
                viol("C12", "retry-different-byte", "after refusing 0x%02x the producer %c offered 0x%02x", pend_retry[p], isA ? 'A' : 'U', (uint8_t)c);
        pend_retry[p] = accepted ? -1 : (uint8_t)c;
        if (!accepted) CNT("write_refusals");
}
static void on_unit(bool isA, bool raw, const char *text, size_t len, bool lead_crlf, bool trail_crlf)
{
        (void)len;
        int p = isA ? 0 : 1;
        bool code = isA && !raw && (strcmp(text, "OK") == 0 || strcmp(text, "ERROR") == 0);
        if (raw) { CNT("list_units"); return; }
        if (code) {
                {       /* the host reads the wire: the bytes of a result code (all but the one being written right now) are the last bytes written, all by the command producer */
                        size_t k = (lead_crlf ? 2 : 1) + strlen(text) + (trail_crlf ? 2 : 1) - 1; bool torn = OUTN < k;
                        for (size_t q = 0; !torn && q < k; q++) if (OUTP[OUTN - 1 - q] != 'A') torn = true;
                        if (torn && OUTN < OUTCAP - 8) viol("C01", "result-code-torn-on-the-wire", "result code %s is not contiguous on the wire: bytes of the event producer lie inside it", text);
                }
                if (RESULT_CODES > LINES_DONE) viol("C01", "code-without-line", "result code %s completed while no non-blank line is outstanding (%ld codes, %ld lines)", text, RESULT_CODES, LINES_DONE);
                if (owed_set[0]) { viol("C11", "unit-lost", "result code emitted while the data unit \"%.40s\" handed back by a handler was never emitted", owed[0]); owed_set[0] = false; }
                if (!taint_hold) {
                        if (HOLD_PHASE == 1) viol("C14", "code-during-hold", "result code %s emitted while the command is held and no release was requested", text);
                        else if (HOLD_PHASE >= 2) {
                                bool ok = text[0] == 'O';
                                if (!((ok && (hold_statuses & 1)) || (!ok && (hold_statuses & 2))))
                                        viol("C14", "wrong-release-status", "hold released with %s but the result code is %s", (hold_statuses & 1) ? "OK" : "ERROR", text);
                                CNT("holds_released_and_answered");
                                DSET("hold_cells", hash_u64((uint64_t)(hold_kind * 16 + hold_paths * 2 + (ok ? 1 : 0)), 5));
                        }
                }
                HOLD_PHASE = 0; hold_statuses = 0;
                chain_budget[FSM_A] = CHAIN_BUDGET;
                CNT("result_codes");
                return;
        }
        if (isA) CNT("cmd_data_units"); else CNT("event_units");      /* (the macro caches the slot of its name: one call site per name) */
        if (!isA && text[0] != '~' && ev_cur_ci >= 0) {
                /* units of the event producer must come in acceptance order: an automatically formatted event text starts with the name of the oldest accepted event's command */
                const char *nm = W.cmd[ev_cur_ci]->name; size_t nl = strlen(nm);
                if (strncmp(text, nm, nl) != 0 || text[nl] != '=') viol("C11", "event-unit-out-of-order", "event unit \"%.30s\" emitted where the oldest accepted event is for command \"%s\"", text, nm);
                else CNT("event_units_checked_against_acceptance_order");
        }
        if (owed_set[p]) {
                if (strcmp(owed[p], text) != 0) viol("C11", "unit-differs-from-handler-text", "producer %c emitted \"%.40s\" but its handler handed back \"%.40s\"", isA ? 'A' : 'U', text, owed[p]);
                owed_set[p] = false;
        } else if (text[0] == '~') {
                viol("C11", "duplicate-unit", "producer %c emitted handler payload \"%.40s\" that is not owed (duplicate or phantom unit)", isA ? 'A' : 'U', text);
        }
}

/* --------------------------------------------------------------- handlers */
cat_status eng_trigger(int ci, cat_cmd_type t)
{
        if (PHASE == 0 && pr_pct(&H, 40)) {      /* an application asks first whether there is room (outside cat_service only: the query takes the lock) */
                cat_status f = cat_is_unsolicited_buffer_full(W.at);
                CNT("full_queries_before_a_trigger");
                if ((f == CAT_STATUS_OK || f == CAT_STATUS_ERROR_BUFFER_FULL) && (f == CAT_STATUS_ERROR_BUFFER_FULL) != (EV_WAITING >= QCAP))
                        viol("C13", "full-query-wrong", "cat_is_unsolicited_buffer_full returned %d with %ld of %d events waiting", (int)f, EV_WAITING, QCAP);
                if (f == CAT_STATUS_ERROR_BUFFER_FULL) CNT("full_queries_answered_full");
        }
        cat_status s = cat_trigger_unsolicited_event(W.at, W.cmd[ci], t);
        ev_note("trigger cmd#%d %s -> %d", ci, t == CAT_CMD_TYPE_READ ? "READ" : "TEST", (int)s);
        bool room = EV_WAITING < QCAP;
        if (s == CAT_STATUS_ERROR_MUTEX_UNLOCK && MX_FAIL_UNLOCK_AT >= 0 && MX_UNLOCKS == MX_FAIL_UNLOCK_AT + 1) { s = room ? CAT_STATUS_OK : CAT_STATUS_ERROR_BUFFER_FULL; CNT("triggers_with_an_injected_unlock_failure"); }      /* the injected fault changes the return value only (C16): the event is queued if there was room */
        if (room && s != CAT_STATUS_OK) viol("C13", "refused-with-room", "trigger refused (%d) with %ld of %d waiting", (int)s, EV_WAITING, QCAP);
        if (room && s != CAT_STATUS_OK && (HOLD_PHASE == 1 || HOLD_PHASE == 2) && !taint_hold) viol("C14", "event-refused-during-hold", "a trigger was refused (%d) with %ld of %d events waiting while a command is suspended (hold phase %d)", (int)s, EV_WAITING, QCAP, HOLD_PHASE);
        if (!room && s != CAT_STATUS_ERROR_BUFFER_FULL) viol("C13", "accepted-when-full", "trigger returned %d with %ld of %d waiting", (int)s, EV_WAITING, QCAP);
        if (s == CAT_STATUS_OK) { EV_WAITING++; CNT("events_accepted"); if (evq_n < 32) { evq[evq_n].ci = ci; evq[evq_n].type = (int)t; evq_n++; } } else CNT("events_refused");
        return s;
}
static void maybe_trigger(void)
{
        if (!stim_on || !pr_pct(&H, EP.p_handler_trigger)) return;
        eng_trigger((int)pr_n(&H, (unsigned)W.ncmds), pr_pct(&H, 50) ? CAT_CMD_TYPE_READ : CAT_CMD_TYPE_TEST);
        CNT("triggers_from_handlers");
}
static cat_return_state draw_code(struct hcall *h)
{
        bool isA = h->fsm == FSM_A;
        unsigned wn = chain_budget[h->fsm] ? 25 : 0, wok = 25, wdok = 25, werr = 10, whold = isA ? EP.p_hold : (EP.unspecified_cells ? 2 : 0);
        unsigned wlist = EP.p_list, wweird = EP.p_weird;
        unsigned r = pr_n(&H, wn + wok + wdok + werr + whold + wlist + wweird);
        if (r < wn) { chain_budget[h->fsm]--; return pr_pct(&H, 50) ? CAT_RETURN_STATE_NEXT : CAT_RETURN_STATE_DATA_NEXT; }
        r -= wn;
        if (r < wok) return CAT_RETURN_STATE_OK;
        r -= wok;
        if (r < wdok) return CAT_RETURN_STATE_DATA_OK;
        r -= wdok;
        if (r < werr) return CAT_RETURN_STATE_ERROR;
        r -= werr;
        if (r < whold) return CAT_RETURN_STATE_HOLD;
        r -= whold;
        if (r < wlist) return CAT_RETURN_STATE_PRINT_CMD_LIST_OK;
        unsigned k = pr_n(&H, 4);
        if (k == 0) return CAT_RETURN_STATE_HOLD_EXIT_OK;
        if (k == 1) return CAT_RETURN_STATE_HOLD_EXIT_ERROR;
        return (cat_return_state)(k == 2 ? 20 + (int)pr_n(&H, 5) : -2 - (int)pr_n(&H, 5));
}
void (*ENG_ON_HANDLER)(struct hcall *h);
static cat_return_state eng_policy(struct hcall *h)
{
        bool isA = h->fsm == FSM_A;
        if (ENG_ON_HANDLER) ENG_ON_HANDLER(h);
        bool rt = h->kind == K_READ || h->kind == K_TEST;
        if (rt) {
                volatile uint8_t sink = 0;
                for (size_t i = 0; i < h->max; i++) sink ^= h->data[i];      /* touch every byte we are told we may use */
                (void)sink;
                if (pr_pct(&H, 50) && h->max >= 12) { int k = snprintf((char *)h->data, h->max, "~%u", payload_seq++); *h->psize = (size_t)k; }
        }
        maybe_trigger();
        if (pr_pct(&H, 15)) {      /* the two queries documented as lock-free may be called from a handler (e.g. to avoid raising a duplicate event) */
                (void)cat_is_unsolicited_event_buffered(W.at, W.cmd[pr_n(&H, (unsigned)W.ncmds)], (cat_cmd_type)((int)pr_n(&H, 5) - 1));      /* NONE, RUN, READ, WRITE, TEST */
                (void)cat_get_processed_command(W.at, pr_pct(&H, 50) ? CAT_FSM_TYPE_ATCMD : CAT_FSM_TYPE_UNSOLICITED);
                CNT("lock_free_queries_from_handlers");
        }
        cat_return_state c = ENG_POLICY_OVERRIDE ? ENG_POLICY_OVERRIDE(h) : draw_code(h);
        if (rt && (c == CAT_RETURN_STATE_DATA_OK || c == CAT_RETURN_STATE_DATA_NEXT)) {
                if (owed_set[h->fsm]) viol("C11", "unit-lost", "handler invoked again although the data unit \"%.40s\" was never emitted", owed[h->fsm]);
                size_t n = strnlen((const char *)h->data, h->max);
                if (n < h->max && n < sizeof owed[0]) { memcpy(owed[h->fsm], h->data, n + 1); owed_set[h->fsm] = true; }
        }
        if (c == CAT_RETURN_STATE_HOLD) {
                if (isA) { HOLD_PHASE = 1; hold_statuses = 0; holds_seen++; hold_kind = h->kind; hold_paths = 0; CNT("holds_entered"); if (INPOS < INLEN) { holds_with_input++; CNT("holds_with_input_queued"); } }
                else taint_hold = true;      /* unspecified cell: HOLD from an event handler (sanitizer replay only) */
        }
        if (!isA && (c == CAT_RETURN_STATE_HOLD_EXIT_OK || c == CAT_RETURN_STATE_HOLD_EXIT_ERROR) && (HOLD_PHASE == 1 || HOLD_PHASE == 2)) {
                HOLD_PHASE = 2; hold_statuses |= (c == CAT_RETURN_STATE_HOLD_EXIT_OK) ? 1 : 2; releases_event++; hold_paths |= 2; CNT("releases_by_event_handler");
        }
        return c;
}
static int eng_vpolicy(int ci, int vi, int dir, size_t wsize)
{
        (void)ci; (void)vi; (void)dir; (void)wsize;
        return pr_pct(&H, EP.p_varcb_fail) ? (pr_pct(&H, 50) ? 1 : -1) : 0;
}

/* the status handed to cat_hold_exit: "0 - OK, else ERROR" (cat.h), so every non-zero value, whatever its sign, asks for ERROR */
cat_status eng_release_status(void)
{
        static const int other[] = { -1, -1, -1, 1, 2, 7, -2, -9, 255, 0x7fffffff, -0x7fffffff - 1 };
        if (chance(45)) return CAT_STATUS_OK;
        return (cat_status)other[rn(sizeof other / sizeof other[0])];
}
void eng_hold_exit(cat_status st)
{
        if (st != CAT_STATUS_OK && st != CAT_STATUS_ERROR) CNT("releases_with_other_nonzero_status");
        cat_status s = cat_hold_exit(W.at, st);
        ev_note("cat_hold_exit(%d) -> %d (hold phase %d)", (int)st, (int)s, HOLD_PHASE);
        if (taint_hold) return;
        if (HOLD_PHASE == 1) {
                if (s != CAT_STATUS_OK) viol("C14", "release-refused", "cat_hold_exit during a hold returned %d", (int)s);
                HOLD_PHASE = 2; hold_statuses |= (st == CAT_STATUS_OK) ? 1 : 2; releases_api++; hold_paths |= 1; CNT("releases_by_api");
                if (PHASE == 0 && stim_on && chance(40)) { eng_trigger((int)rn(W.ncmds), chance(50) ? CAT_CMD_TYPE_READ : CAT_CMD_TYPE_TEST); CNT("triggers_between_a_release_request_and_the_next_service_call"); }      /* the command is still suspended: events are accepted as before */
        } else if (HOLD_PHASE == 2) {
                /* a second request before the first one has been consumed: whether the command still counts as held in this window is left open
                 * by the properties (DESIGN 3.2), so both answers are accepted; an accepted request may replace the status */
                if (s == CAT_STATUS_OK) { hold_statuses |= (st == CAT_STATUS_OK) ? 1 : 2; CNT("repeated_releases_accepted"); }
                else if (s != CAT_STATUS_ERROR_NOT_HOLD) viol("C14", "release-refused", "repeated cat_hold_exit returned %d", (int)s);
        }
}
void eng_spurious_hold_exit(void)
{
        if (taint_hold || (HOLD_PHASE != 0 && HOLD_PHASE != 3)) return;
        struct cat_object before; memcpy(&before, W.at, sizeof before);
        cat_status s = cat_hold_exit(W.at, eng_release_status());
        CNT("spurious_hold_exits");
        if (s != CAT_STATUS_ERROR_NOT_HOLD) viol("C14", "spurious-release-accepted", "cat_hold_exit outside a hold returned %d", (int)s);
        if (RAW_COMPARES && memcmp(&before, W.at, sizeof before) != 0) viol("C14", "spurious-release-changed-state", "cat_hold_exit outside a hold modified the parser object");
}

/* ------------------------------------------------------ post-step monitors */
void eng_after_service(cat_status s)
{
        if (s == CAT_STATUS_ERROR_MUTEX_UNLOCK && MX_FAIL_UNLOCK_AT >= 0 && MX_UNLOCKS == MX_FAIL_UNLOCK_AT + 1) { CNT("service_calls_with_an_injected_unlock_failure"); return; }      /* the harness made this unlock fail: the call did its work, only the status differs */
        if (s != CAT_STATUS_OK && s != CAT_STATUS_BUSY) viol("C15", "bad-service-status", "cat_service returned %d", (int)s);
        if (HOLD_PHASE == 2) { HOLD_PHASE = 3; hold_release_step = 0; }          /* a pending release request is consumed by the call that just returned */
        if (HOLD_PHASE == 3 && WS.mode == SCH_EAGER) hold_release_step++;      /* service calls made with an always-ready output since the release was consumed */
        if (HOLD_PHASE == 3 && !taint_hold && WS.mode == SCH_EAGER && hold_release_step > 4 * (long)(W.capA + W.capU) + 200) {
                /* the output accepts every byte: the other producer can keep the line for one unit at most, then the result code of the released command goes out, however many events keep coming */
                viol("C14", "result-withheld-after-release", "no result code after %ld service calls with an always-ready output since the release request was consumed", hold_release_step);
                viol("C01", "line-never-answered", "the released command has no result code after %ld service calls with an always-ready output since its release (events keep coming)", hold_release_step);
                HOLD_PHASE = 0;
        }
        if (!taint_hold) {
                cat_status hq = cat_is_hold(W.at);
                bool want = HOLD_PHASE == 1;
                if ((hq == CAT_STATUS_HOLD) != want) {
                        viol("C14", want ? "is-hold-not-hold-during-hold" : "is-hold-hold-outside-hold", "cat_is_hold returned %d in hold phase %d", (int)hq, HOLD_PHASE);
                        viol("C18", want ? "is-hold-not-hold-during-hold" : "is-hold-hold-outside-hold", "cat_is_hold returned %d in hold phase %d", (int)hq, HOLD_PHASE);
                }
                CNT("is_hold_samples");
        }
        cat_status b = cat_is_busy(W.at);
        CNT("is_busy_samples");
        if (MX_FAIL_LOCK_AT < 0 && MX_FAIL_UNLOCK_AT < 0) {      /* no injected mutex fault: the two queries answer, they do not fail */
                if (b != CAT_STATUS_OK && b != CAT_STATUS_BUSY) viol("C18", "is-busy-status", "cat_is_busy returned %d (neither OK nor BUSY)", (int)b);
                if (!taint_hold) { cat_status hq2 = cat_is_hold(W.at); if (hq2 != CAT_STATUS_OK && hq2 != CAT_STATUS_HOLD) viol("C18", "is-hold-status", "cat_is_hold returned %d (neither OK nor HOLD)", (int)hq2); }
        }
        if (b == CAT_STATUS_OK) {
                CNT("is_busy_idle_answers");
                if (PA.st != 0 || PU.st != 0) viol("C18", "idle-with-open-unit", "cat_is_busy returned OK while a unit of producer %c is partially emitted", PA.st ? 'A' : 'U');
                if (line_nonblank) viol("C18", "idle-with-partial-line", "cat_is_busy returned OK while a non-blank line is partially consumed");
                else if (RESULT_CODES != LINES_DONE) viol("C18", "idle-while-line-in-progress", "cat_is_busy returned OK while a consumed line has no complete result code yet");
        } else {
                if (PA.st != 0 || PU.st != 0) CNT("busy_samples_with_open_unit");
                if (PU.st != 0) CNT("busy_samples_inside_event_unit");
        }
        {       /* coverage accounting only: how often both flush engines wanted the line at the same time */
                int as = OBJ_STATE(), us = OBJ_USTATE();
                bool aw = as == CAT_STATE_FLUSH_IO_WRITE_WAIT, af = as == CAT_STATE_FLUSH_IO_WRITE;
                bool uw = us == CAT_UNSOLICITED_STATE_FLUSH_IO_WRITE_WAIT, uf = us == CAT_UNSOLICITED_STATE_FLUSH_IO_WRITE;
                if (aw && uf) CNT("contended_steps_event_holds_line");
                if (uw && af) CNT("contended_steps_cmd_holds_line");
                if (aw && uw) CNT("contended_steps_both_waiting");
        }
        if (s == CAT_STATUS_OK) {
                CNT("service_ok_returns");
                if (!line_nonblank && b != CAT_STATUS_OK) viol("C18", "busy-at-quiescence", "cat_is_busy returned %d although cat_service returned OK and no partial line is pending", (int)b);
                if (EV_WAITING + (EV_INPROGRESS ? 1 : 0) != 0)
                        viol("C15", "ok-with-events-queued", "cat_service returned OK with %ld event(s) waiting and %d in progress", EV_WAITING, EV_INPROGRESS ? 1 : 0);
                /* probe: an immediately repeated call without new stimulus must do nothing */
                struct cat_object before; memcpy(&before, W.at, sizeof before);
                size_t outn = OUTN; long hc = 0, wr = N_WRITE_OK + N_WRITE_NO;
                for (int f = 0; f < 2; f++) for (int k = 0; k < 4; k++) hc += N_HCALL[f][k];
                hc += N_VCALL[0] + N_VCALL[1];
                /* "no new input byte": bytes that arrive later are kept away from the repeated call.  When the read schedule is eager every byte of the input has
                 * been available all along, so nothing of it is new: the gate stays open then and a parser that said OK with a byte in front of it is found out */
                bool avail = RS.mode == SCH_EAGER && INPOS < INLEN && HOLD_PHASE == 0 && !taint_hold;
                size_t inpos0 = INPOS;
                READ_GATE = avail;
                cat_status s2 = svc();
                READ_GATE = true;
                if (avail) { CNT("quiescence_probes_with_input_available"); if (INPOS != inpos0) viol("C15", "ok-with-input-available", "cat_service returned OK although the next input byte (offset %zu) was available to it all along; the repeated call consumed it", inpos0); }
                long hc2 = 0; for (int f = 0; f < 2; f++) for (int k = 0; k < 4; k++) hc2 += N_HCALL[f][k];
                hc2 += N_VCALL[0] + N_VCALL[1];
                CNT("quiescence_probes");
                if (s2 == CAT_STATUS_ERROR_MUTEX_UNLOCK && MX_FAIL_UNLOCK_AT >= 0 && MX_UNLOCKS == MX_FAIL_UNLOCK_AT + 1) s2 = CAT_STATUS_OK;      /* injected unlock failure: status only */
                if (s2 != CAT_STATUS_OK) viol("C15", "probe-not-ok", "cat_service returned OK, the immediately repeated call returned %d", (int)s2);
                if (OUTN != outn || N_WRITE_OK + N_WRITE_NO != wr) viol("C15", "probe-emitted", "the repeated call after OK offered output");
                if (hc2 != hc) viol("C15", "probe-invoked-callback", "the repeated call after OK invoked a handler or variable callback");
                OBJ_EXCUSE_CURRENT_CHAR(before);
                if (RAW_COMPARES && OBJ_FIELDS && memcmp(&before, W.at, sizeof before) != 0) viol("C15", "probe-changed-state", "the repeated call after OK modified the parser object");
        }
        canary_check("after service");
}

/* an application may raise an event from anywhere, also from its io->read callback when it finds nothing to deliver (a driver that turns line-status changes into events) */
static void on_read_refused(void)
{
        if (!stim_on || W.use_mutex || READ_GATE == false || !EP.p_read_trigger || pr_n(&H, 1000) >= EP.p_read_trigger) return;
        eng_trigger((int)pr_n(&H, (unsigned)W.ncmds), pr_pct(&H, 50) ? CAT_CMD_TYPE_READ : CAT_CMD_TYPE_TEST);
        CNT("triggers_from_the_read_callback");
}
void eng_monitors_install(void)
{
        ON_READ = on_read; ON_WRITE = on_write; ON_UNIT = on_unit; ON_PHASE = on_phase; ON_READ_REFUSED = on_read_refused;
        POLICY = eng_policy; VPOLICY = eng_vpolicy;
        evq_n = 0; ev_cur_ci = -1; stim_on = false;
        HOLD_PHASE = 0; EV_WAITING = 0; EV_INPROGRESS = false; LINES_DONE = 0; line_nonblank = false; taint_hold = false;
        chain_budget[0] = chain_budget[1] = CHAIN_BUDGET; owed_set[0] = owed_set[1] = false; hold_statuses = 0; pend_retry[0] = pend_retry[1] = -1;
        holds_seen = holds_with_input = releases_api = releases_event = 0;
}

/* ------------------------------------------------------------- generation */
static const char ALPHA[] = "+ATB#&z9%";
static char *mkname(void)
{
        char b[12]; unsigned n = 1 + rn(chance(88) ? 4 : 9);      /* also names as long as, or longer than, the smallest command buffers */
        if (EP.p_empty_name && chance(EP.p_empty_name)) n = 0;      /* cat_init only asks for name != NULL */
        for (unsigned i = 0; i < n; i++) b[i] = ALPHA[rn(sizeof ALPHA - 1)];
        b[n] = 0;
        return xstr(b);
}
void eng_gen_table(void)
{
        w_begin();
        size_t ng = chance(88) ? 1 + rn(3) : chance(60) ? 1 + rn(6) : 7 + rn(7);       /* now and then nine and more groups */
        size_t ncmd = ng + (chance(70) ? rn(8) : rn(EP.max_cmds - (unsigned)ng + 1));
        bool big = chance(4);
        if (big) { ncmd = 24 + 4 * rn(5) - (chance(30) ? rn(4) : 0); if (ncmd > MAXCMD - 8) ncmd = MAXCMD - 8; if (ng > ncmd) ng = 1; }      /* 21 .. 40 commands, mostly a multiple of four */
        if (!big && ncmd > EP.max_cmds) ncmd = EP.max_cmds;
        if (ncmd < ng) ncmd = ng;
        size_t per[MAXGRP] = { 0 };
        for (size_t g = 0; g < ng; g++) per[g] = 1;
        for (size_t i = ng; i < ncmd; i++) per[rn(ng)]++;
        size_t idx = 0;
        for (size_t g = 0; g < ng; g++) {
                struct cat_command *arr = w_group(per[g], chance(10));
                for (size_t j = 0; j < per[g]; j++, idx++) {
                        struct cat_command *c = &arr[j];
                        c->name = (idx > 0 && chance(12)) ? xstr(W.cmd[rn(idx)]->name) : mkname();
                        if (chance(EP.p_desc)) { char d[40]; snprintf(d, sizeof d, "d%zu%s", idx, chance(50) ? " some text" : chance(30) ? " 0-100% %s %d%" : ""); c->description = xstr(d); }
                        c->implicit_write = chance(8);
                        if (chance(60)) c->write = h_write;
                        if (!c->implicit_write) { if (chance(50)) c->read = h_read; if (chance(50)) c->run = h_run; if (chance(50)) c->test = h_test; }
                        c->only_test = chance(8); c->disable = chance(8); c->need_all_vars = chance(30);
                        unsigned nv = chance(50) ? 1 + rn(4) : 0;
                        struct cat_variable *v = w_vars(c, nv);
                        for (unsigned k = 0; k < nv; k++) {
                                v[k].type = (cat_var_type)rn(5); v[k].access = (cat_var_access)rn(3);
                                if (chance(50)) { char nb[64]; snprintf(nb, sizeof nb, chance(10) ? "%%N%u" : chance(8) ? "measurement_interval_in_milliseconds_channel_%u" : "N%u", k); v[k].name = xstr(nb); }      /* also names longer than any fixed scratch buffer */
                                size_t sz;
                                if (v[k].type <= CAT_VAR_NUM_HEX) { static const size_t szs[] = { 1, 2, 4, 4, 2, 1, 3, 8 }; sz = szs[rn(chance(90) ? 6 : 8)]; }
                                else sz = chance(85) ? 1 + rn(8) : chance(50) ? 17 + rn(48) : 1 + rn(64);
                                uint8_t *d = w_vdata(&v[k], sz);
                                for (size_t b = 0; b < sz; b++) d[b] = (uint8_t)rnd();
                                if (v[k].type == CAT_VAR_BUF_STRING) {
                                        for (size_t b = 0; b < sz; b++) if (d[b] == 0 || d[b] == '\r') d[b] = 'q';
                                        if (chance(80)) d[rn(sz)] = 0;
                                }
                                if (chance(30)) v[k].read = hv_read;
                                if (chance(30)) v[k].write = hv_write;
                        }
                }
        }
        size_t cap = 6 + rn(chance(50) ? 10 : 120);
        if (cap < w_min_cap()) cap = w_min_cap();
        if (W.ncmds >= 21 && chance(50)) { cap = w_min_cap(); CNT("tables_using_every_match_state_slot_of_a_minimal_buffer"); }      /* ceil(n/4) bytes of match states: the table fills the command buffer to its last byte (or last but one) */
        bool shared = chance(50);
        if (shared) w_buffers(cap * 2 + rn(2), true, 0);
        else w_buffers(cap, false, rn(chance(30) ? 8 : 100));
        w_init((int)rn(2));
}

static void gen_args(const struct cat_command *c)
{
        if (c->var_num && chance(70)) {
                size_t n = c->var_num + (chance(10) ? 1 : 0);
                for (size_t j = 0; j < n; j++) {
                        if (j) in_putc(',');
                        unsigned t = j < c->var_num ? (unsigned)c->var[j].type : (unsigned)CAT_VAR_UINT_DEC;
                        if (chance(10)) t = rn(5);
                        char tmp[64];
                        switch (t) {
                        case CAT_VAR_INT_DEC: snprintf(tmp, sizeof tmp, "%s%llu", chance(40) ? "-" : (chance(20) ? "+" : ""), (unsigned long long)(chance(50) ? rn(300) : rnd() >> rn(64))); in_puts(tmp); break;
                        case CAT_VAR_UINT_DEC: snprintf(tmp, sizeof tmp, "%llu", (unsigned long long)(chance(50) ? rn(300) : rnd() >> rn(64))); in_puts(tmp); if (chance(5)) in_puts("99999999999999999999"); break;
                        case CAT_VAR_NUM_HEX: snprintf(tmp, sizeof tmp, "0%c%llX", chance(50) ? 'x' : 'X', (unsigned long long)(chance(50) ? rn(300) : rnd() >> rn(64))); in_puts(tmp); break;
                        case CAT_VAR_BUF_HEX: { unsigned k = rn(20); for (unsigned q = 0; q < k; q++) in_putc("0123456789abcdefABCDEF"[rn(22)]); } break;
                        default: {
                                in_putc('"');
                                unsigned k = rn(10);
                                for (unsigned q = 0; q < k; q++) { unsigned r = rn(10); if (r == 0) in_puts("\\\\"); else if (r == 1) in_puts("\\\""); else if (r == 2) in_puts("\\n"); else if (r == 3) in_putc(','); else if (r == 4 && chance(25)) in_puts(chance(50) ? "\\x4a" : "\\X4B"); else in_putc('a' + (int)rn(26)); }
                                if (!chance(5)) in_putc('"');
                        } break;
                        }
                }
        } else {
                unsigned n = chance(EP.p_long_line) ? rn((unsigned)W.capA * 3 + 8) : rn(12);
                for (unsigned q = 0; q < n; q++) { uint8_t ch = (uint8_t)rnd(); if (chance(70)) ch = (uint8_t)(' ' + rn(90)); if (ch == '\n') ch = 'x'; in_putc(ch); }
        }
}
void eng_gen_line(void)      /* appends exactly one line, LF included */
{
        unsigned r = rn(100);
        if (chance(EP.p_nul) && chance(30)) in_putc(0);      /* a NUL in front of the line (between two lines) */
        size_t line_start = INLEN;
        if (chance(3)) {      /* byte sequences with a meaning elsewhere: a line made only of them, or one in front of / behind a request */
                unsigned n = 1 + rn(3), form = rn(4);
                if (form == 2) { in_puts("AT"); const struct cat_command *c = W.cmd[rn(W.ncmds)]; in_puts(c->name); }
                for (unsigned q = 0; q < n; q++) { in_puts(LORE[rn(N_LORE)]); if (chance(15)) in_putc('\r'); }
                if (form == 3) { in_puts("AT"); const struct cat_command *c = W.cmd[rn(W.ncmds)]; in_puts(c->name); }
                CNT("lines_with_terminal_lore_sequences");
        }
        else if (r < EP.p_garbage_line) { unsigned n = chance(92) ? rn(12) : 240 + rn(chance(50) ? 40 : 3000);      /* also lines longer than 255 / several thousand bytes: length counters must not wrap while draining */
                for (unsigned q = 0; q < n; q++) { uint8_t ch = (uint8_t)rnd(); if (ch == '\n') ch = 'y'; in_putc(ch); } }
        else if (r < EP.p_garbage_line + 4) { unsigned n = rn(3); for (unsigned q = 0; q < n; q++) in_putc('\r'); }
        else {
                if (chance(5)) in_putc('\r');
                if (chance(4)) in_puts(chance(50) ? "A\rT" : "a\r\rt");      /* a CR inside the prefix is a CR after the first non-blank character */
                else in_puts(chance(50) ? "AT" : (chance(50) ? "at" : "aT"));
                if (chance(5)) in_putc('\r');
                if (!chance(5)) {
                        const struct cat_command *c = W.cmd[rn(W.ncmds)];
                        size_t L = strlen(c->name), take = chance(60) ? L : rn(L + 1);
                        for (size_t q = 0; q < take; q++) { char ch = c->name[q]; if (chance(30) && ch >= 'A' && ch <= 'Z') ch = (char)(ch + 32); in_putc(ch); }
                        if (chance(10)) in_putc(ALPHA[rn(sizeof ALPHA - 1)]);
                        unsigned s = rn(10);
                        if (s < 3) {} else if (s < 5) in_putc('?'); else if (s < 8) { in_putc('='); gen_args(c); } else if (s < 9) in_puts("=?"); else gen_args(c);
                        if (chance(4)) in_puts("?x");
                        if (chance(EP.p_stray_cr)) {      /* a CR that is not followed by LF: stray CR, then junk / another CR / a '?' */
                                static const char *tail[] = { "\rx", "\r\rq", "\r?", "\r=", "\r\r", "\r ", "\rAT" };
                                in_puts(tail[rn(7)]);
                        }
                }
        }
        if (chance(EP.p_nul)) {                   /* NUL bytes are ordinary input bytes (a UART break, padding): at the end of the line, or somewhere inside it */
                if (chance(50) || INLEN == line_start) in_putc(0);
                else { size_t span = INLEN - line_start; INB[INLEN - 1 - rn(span > 6 ? 6 : span)] = 0; }
        }
        if (chance(30)) in_putc('\r');
        in_putc('\n');
}
void eng_gen_input(unsigned nlines) { in_reset(); for (unsigned i = 0; i < nlines; i++) eng_gen_line(); }
void eng_random_schedules(void)
{
        sched_r = sched_w = 100;
        if (chance(EP.p_backpressure)) {
                sched_r = chance(50) ? 100 : 30 + rn(70);
                sched_w = chance(50) ? 100 : (chance(20) ? 5 + rn(20) : 30 + rn(70));
        }
        if (sched_r == 100) sch_eager(&RS); else sch_bern(&RS, sched_r, rnd());
        if (sched_w == 100) sch_eager(&WS); else if (chance(20)) { unsigned k = 2 + rn(4); sch_periodic(&WS, k, rn(k)); sched_w = 100 / k; } else sch_bern(&WS, sched_w, rnd());
}

long eng_progress_bound(void)
{
        long R = (long)(INLEN - INPOS), nl = 1, nev = EV_WAITING + (EV_INPROGRESS ? 1 : 0);
        for (size_t i = INPOS; i < INLEN; i++) if (INB[i] == '\n') nl++;
        long maxname = 1;
        for (size_t i = 0; i < W.ncmds; i++) if ((long)strlen(W.cmd[i]->name) > maxname) maxname = (long)strlen(W.cmd[i]->name);
        long per_line = 64 + (long)W.ncmds * (8 + 4 * (maxname + 8)) + (CHAIN_BUDGET + 2) * (MAXVAR * 2 + (long)W.capA + 24);
        long per_event = 16 + (CHAIN_BUDGET + 2) * (MAXVAR * 2 + (long)W.capU + 24);
        return 2 * (512 + 2 * R * ((long)W.ncmds + 3) + nl * per_line + (nev + 1) * per_event);
}

/* ---------------------------------------------------------------- history */
void eng_run_history(void)
{
        eng_monitors_install();
        pr_seed(&H, CUR_SEED ^ 0xABCDEF, (uint64_t)CUR_CASE);
        stim_on = true;
        long cap1 = 4000 + 60 * (long)INLEN * ((long)W.ncmds + 2);
        if (cap1 > 400000) cap1 = 400000;
        if (chance(EP.p_cut)) cap1 = (long)rn(chance(50) ? 60 : 1500);    /* stop the stimulus at an arbitrary point: progress is then measured from a mid-flight state */
        bool quiet = false;
        size_t sp_in = INPOS, sp_out = OUTN; long sp_since = 0;      /* stall detector (run time on broken trees only): nothing read or written for 3000 calls outside a hold -> go on to phase II, which judges progress */
        for (long i = 0; i < cap1; i++) {
                if (INPOS != sp_in || OUTN != sp_out || HOLD_PHASE != 0) { sp_in = INPOS; sp_out = OUTN; sp_since = i; } else if (i - sp_since > 3000) break;
                if (INPOS < INLEN && rn(1000) < EP.p_event_step) eng_trigger((int)rn(W.ncmds), chance(50) ? CAT_CMD_TYPE_READ : CAT_CMD_TYPE_TEST);
                if (HOLD_PHASE == 1 && chance(3)) eng_hold_exit(eng_release_status());
                else if (HOLD_PHASE == 2 && chance(20)) eng_hold_exit(eng_release_status());   /* repeated / conflicting request before it is consumed */
                if (chance(1)) eng_spurious_hold_exit();
                if (EP.p_toggle && rn(1000) < EP.p_toggle) {      /* the application switches a command or a group off / on between two service calls, wherever the parser happens to be */
                        if (chance(70)) { struct cat_command *c = W.cmd[rn(W.ncmds)]; c->disable = !c->disable; }
                        else { struct cat_command_group *g = W.grp[rn(W.ngroups)]; g->disable = !g->disable; }
                        CNT("disable_flags_toggled_mid_history");
                }
                if (rn(1000) < EP.p_lookup) {      /* the read-only lookup helpers of the public API may be called at any time: they must not disturb the parser */
                        const char *nm = chance(70) ? W.cmd[rn(W.ncmds)]->name : "+NOSUCH";
                        const struct cat_command *c1 = cat_search_command_by_name(W.at, nm);
                        if (c1 && strcmp(c1->name, nm) != 0) viol("C03", "lookup-returned-wrong-command", "cat_search_command_by_name(\"%s\") returned \"%s\"", nm, c1->name);
                        (void)cat_search_command_group_by_name(W.at, nm); (void)cat_search_variable_by_name(W.at, W.cmd[rn(W.ncmds)], "N0");
                        CNT("lookup_api_calls_mid_history");
                }
                cat_status s = svc();
                eng_after_service(s);
                if (case_failed()) return;
                if (INPOS >= INLEN) {
                        if (s == CAT_STATUS_OK && HOLD_PHASE == 0) { quiet = true; break; }
                        if (HOLD_PHASE == 1 && chance(20)) eng_hold_exit(eng_release_status());
                }
        }
        /* phase II: no further stimulus, io always ready, holds released at once: bounded progress to quiescence (C15) */
        stim_on = false;
        sch_eager(&RS); sch_eager(&WS);
        unsigned period = 1;
        if (chance(30)) { period = 2 + rn(4); sch_periodic(&WS, period, rn(period)); CNT("progress_measured_with_periodic_output"); }      /* "the output accepts bytes": also an output that is ready in every k-th service call only (a slow UART polled too often) */
        if (!quiet) {
                if (HOLD_PHASE == 1) eng_hold_exit(CAT_STATUS_OK);
                long B = eng_progress_bound() * (long)period, used = 0;
                for (; used < B; used++) {
                        cat_status s = svc();
                        eng_after_service(s);
                        if (case_failed()) return;
                        if (HOLD_PHASE == 1) eng_hold_exit(eng_release_status());
                        if (taint_hold) (void)cat_hold_exit(W.at, CAT_STATUS_OK);
                        if (s == CAT_STATUS_OK && INPOS >= INLEN && HOLD_PHASE == 0) { quiet = true; break; }
                }
                CNT("progress_measurements");
                if (!quiet && !taint_hold) {
                        long total = 0; bool nb = false;
                        for (size_t i = 0; i < INLEN; i++) { if (INB[i] == '\n') { if (nb) total++; nb = false; } else if (INB[i] != '\r') nb = true; }
                        if (RESULT_CODES < total) viol("C01", "line-never-answered", "%ld result codes for %ld non-blank lines after the progress bound of %ld calls with io always ready (input consumed up to offset %zu of %zu)", RESULT_CODES, total, B, INPOS, INLEN);
                        viol("C15", "no-quiescence", "no OK from cat_service within the progress bound of %ld calls after all stimulus stopped", B); return;
                }
                if (taint_hold || !quiet) return;
        }
        long total = 0; bool nb = false;
        for (size_t i = 0; i < INLEN; i++) { if (INB[i] == '\n') { if (nb) total++; nb = false; } else if (INB[i] != '\r') nb = true; }
        CNTN("nonblank_lines", total);
        if (RESULT_CODES != total) viol("C01", "final-count", "%ld result codes for %ld non-blank lines at quiescence", RESULT_CODES, total);
        if (PA.st || PU.st) viol("C11", "open-unit-at-end", "producer %c has an unfinished unit at quiescence", PA.st ? 'A' : 'U');
        if (owed_set[0] || owed_set[1]) viol("C11", "unit-lost", "a data unit handed back by a handler was never emitted");
        if (EV_WAITING != 0 || EV_INPROGRESS) viol("C13", "events-left", "%ld event(s) waiting / %d in progress at quiescence", EV_WAITING, EV_INPROGRESS ? 1 : 0);
}

void eng_describe(FILE *f)
{
        w_describe(f);
        fprintf(f, "schedule: read ready %u%%, write accepted %u%% (Bernoulli, reproducible from seed/case)\n", sched_r, sched_w);
        fprintf(f, "profile: event/step %u permille, handler-trigger %u%%, hold weight %u, list weight %u, odd-code weight %u, var-callback failure %u%%\n",
                EP.p_event_step, EP.p_handler_trigger, EP.p_hold, EP.p_list, EP.p_weird, EP.p_varcb_fail);
        io_describe(f);
        fprintf(f, "model: hold phase %d, events waiting %ld, in progress %d, result codes %ld, finished non-blank lines %ld\n", HOLD_PHASE, EV_WAITING, EV_INPROGRESS, RESULT_CODES, LINES_DONE);
}
