/* C20 — each line is answered on its own; the newline style mirrors the request.
 * Differential monitor (no model): output of a stream of lines == concatenation of the outputs of each line fed
 * alone to a freshly initialised parser whose variables hold the values they had when that line started
 * (handler behaviour keyed by line index, identical in both runs).  Direct check: every newline of the units
 * answering a line is CRLF iff the line had a CR after its first non-CR byte. */
#include "engine.h"

const char *CHK_RULE = "one case = one stream of 2..12 generated lines (valid forms, implicit writes, every malformed class, over-long, aborted, LF/CRLF/stray CR) run once as a "
                       "stream and once line by line on freshly initialised parsers (object memory zero-filled, garbage-filled, or the previous object re-initialised with cat_init); non-trivial = stream with >= 2 non-blank lines; distinct "
                       "by (sequence of reference line classes incl. newline style, table size)";

static prng_t HA, HU, HE; static unsigned ev_pm;      /* HU: decisions of event handlers; HE: when the harness raises an event (a quarter of the cases: events come and go while the lines are answered) */
static long lines_started; static int solo_line = -1;
static bool hold_pending; static int hold_status, hold_delay;
#define MAXL 16
static uint8_t *snap[MAXL]; static int nsnap; static size_t nvarbytes;
static bool line_crlf[MAXL + 1]; static int line_cls[MAXL + 1]; static int nlines;
static long lf_delivered;
static char detail[300];

static cat_return_state policy(struct hcall *h)
{
        prng_t *p = h->fsm == FSM_U ? &HU : &HA;
        if ((h->kind == K_READ || h->kind == K_TEST) && pr_pct(p, 50) && h->max >= 12) *h->psize = (size_t)snprintf((char *)h->data, h->max, "~%u", pr_n(p, 1000));
        unsigned r = pr_n(p, 100);
        cat_return_state c;
        if (r < 18) c = pr_pct(p, 50) ? CAT_RETURN_STATE_NEXT : CAT_RETURN_STATE_DATA_NEXT;
        else if (r < 40) c = CAT_RETURN_STATE_OK;
        else if (r < 65) c = CAT_RETURN_STATE_DATA_OK;
        else if (r < 75) c = CAT_RETURN_STATE_ERROR;
        else if (r < 83) c = CAT_RETURN_STATE_HOLD;
        else if (r < 91) c = CAT_RETURN_STATE_PRINT_CMD_LIST_OK;
        else if (r < 95) c = pr_pct(p, 50) ? CAT_RETURN_STATE_HOLD_EXIT_OK : CAT_RETURN_STATE_HOLD_EXIT_ERROR;
        else c = (cat_return_state)(20 + (int)pr_n(p, 4));
        if (h->fsm == FSM_U && (c == CAT_RETURN_STATE_HOLD || c == CAT_RETURN_STATE_HOLD_EXIT_OK || c == CAT_RETURN_STATE_HOLD_EXIT_ERROR)) c = CAT_RETURN_STATE_OK;      /* an event must not decide how a held command ends: that would be a legitimate dependence on its timing */
        if (c == CAT_RETURN_STATE_HOLD) { hold_pending = true; hold_status = (int)pr_n(p, 2); hold_delay = (int)pr_n(p, 7); }     /* the release comes 0..6 service calls later (a logical, per-line delay: identical in the stream and in the single-line run) */
        return c;
}
/* variable hooks: a few fail at random (same draw in both runs), and a write hook also decides by the size it is told (what it is for): a size left over from an earlier line then changes the answer */
static int vpolicy(int ci, int vi, int dir, size_t ws) { (void)ci; if (pr_pct(PHASE == 1 ? &HU : &HA, 3)) return 1; return dir == 1 && (ws * 7 + (size_t)vi) % 11 == 3; }
static void seed_line(long li) { pr_seed(&HA, CUR_SEED * 131 + (uint64_t)CUR_CASE, (uint64_t)li + 77); }
static void on_read(size_t off, uint8_t ch)
{
        if (solo_line < 0 && (off == 0 || INB[off - 1] == '\n')) {
                long li = lines_started++;
                seed_line(li);
                if (li < MAXL) { if (!snap[li]) snap[li] = malloc(nvarbytes + 1); w_save_vars(snap[li]); if (li + 1 > nsnap) nsnap = (int)li + 1; }
        }
        if (ch == '\n') lf_delivered++;
}
/* newline style of every unit answering a line */
static void on_unit(bool isA, bool raw, const char *text, size_t len, bool lead, bool trail)
{
        if (!isA) return;           /* the property speaks of the command's response; the newline style of event units follows the interleaving (DESIGN 3.2) */
        if (solo_line >= 0) return;
        long li = lf_delivered - 1;
        if (li < 0 || li >= nlines) return;
        bool want = line_crlf[li], bad = false;
        if (!raw && (lead != want || trail != want)) bad = true;
        for (size_t i = 0; i < len; i++) if (text[i] == '\n' && ((i > 0 && text[i - 1] == '\r') != want)) bad = true;
        for (size_t i = 0; i < len; i++) if (text[i] == '\r' && text[i + 1] != '\n' && raw) bad = true;
        CNT("units_style_checked"); if (want) CNT("units_crlf");
        if (bad) viol("C20", want ? "newline-not-crlf" : "newline-not-lf", "line %ld %s a CR after its first non-CR byte but unit \"%.30s\" uses %s%s newlines", li, want ? "has" : "has no",
                      text, lead ? "CRLF" : "LF", lead != trail ? " / mixed" : "");
}
static bool run_stream(int fillmode, const uint8_t *vars)
{
        w_load_vars(vars);
        w_reinit(fillmode);
        INPOS = 0; units_reset(); hold_pending = false; lf_delivered = 0;
        POLICY = policy; VPOLICY = vpolicy; ON_READ = on_read; ON_UNIT = on_unit;
        long bound = 20000 + 80 * (long)(INLEN + 4) * ((long)W.ncmds + 3);
        for (long i = 0; i < bound; i++) {
                if (ev_pm && INPOS < INLEN && pr_n(&HE, 1000) < ev_pm) { (void)cat_trigger_unsolicited_event(W.at, W.cmd[pr_n(&HE, (unsigned)W.ncmds)], pr_pct(&HE, 50) ? CAT_CMD_TYPE_READ : CAT_CMD_TYPE_TEST); CNT("events_raised_while_lines_are_answered"); }
                cat_status s = svc();
                if (hold_pending && hold_delay-- <= 0) { hold_pending = false; cat_hold_exit(W.at, hold_status ? CAT_STATUS_ERROR : CAT_STATUS_OK); }
                if (s == CAT_STATUS_OK && INPOS >= INLEN) return true;
        }
        return false;
}

static void dirty_object(void)
{
        if (!W.at) return;
        units_reset();
        POLICY = policy; VPOLICY = vpolicy; ON_READ = NULL; ON_UNIT = NULL;
        const struct cat_command *c = W.cmd[rn(W.ncmds)];
        in_reset(); in_puts(chance(50) ? "AT" : "A"); if (chance(70)) { in_puts(c->name); in_puts(chance(50) ? "=12,\"x" : chance(50) ? "?" : ""); } if (chance(30)) in_puts("\r\n");
        INPOS = 0; pr_seed(&HA, 99, rnd());
        for (unsigned i = 0, n = rn(40); i < n; i++) { if (chance(15)) (void)cat_trigger_unsolicited_event(W.at, W.cmd[rn(W.ncmds)], chance(50) ? CAT_CMD_TYPE_READ : CAT_CMD_TYPE_TEST); (void)svc(); }
        hold_pending = false;
        CNT("reinitialised_dirty_objects");
}
static uint8_t all_in[INCAP]; static size_t all_len; static uint8_t seq_out[1 << 16]; static size_t seq_n; static uint8_t cat_out[1 << 16]; static size_t cat_n;
void chk_describe(FILE *f)
{
        w_describe(f);
        static char b[1 << 15];
        fmt_bytes(b, sizeof b, all_in, all_len > 2500 ? 2500 : all_len); fprintf(f, "stream: \"%s\"\n", b);
        fmt_bytes(b, sizeof b, seq_out, seq_n > 3000 ? 3000 : seq_n); fprintf(f, "output of the stream      : \"%s\"\n", b);
        fmt_bytes(b, sizeof b, cat_out, cat_n > 3000 ? 3000 : cat_n); fprintf(f, "concatenated solo outputs: \"%s\"\n", b);
        fprintf(f, "%s\n", detail);
}

static int class_of(const struct ref_line *r)
{
        if (r->cls == RL_BLANK) return 0;
        if (r->cls == RL_BARE_OK) return 1;
        if (r->cls == RL_ERROR) return 2 + r->err;                /* 3..11 */
        return 12 + r->kind * 2 + (r->implicit ? 1 : 0);          /* 12..19 */
}
struct case_budget chk_budget(const char *tier)
{
        struct case_budget b = { 0, strcmp(tier, "thorough") == 0 ? 8000000 : 200000 };
        return b;
}
void chk_run_case(uint64_t seed, long c, bool is_sweep)
{
        (void)seed; (void)c; (void)is_sweep;
        detail[0] = 0;
        eng_default_profile();
        EP.p_garbage_line = 10; EP.p_long_line = 10;
        if (chance(20)) EP.max_cmds = 40;
        eng_gen_table();
        nvarbytes = w_total_var_bytes();
        uint8_t *v0 = xalloc(nvarbytes + 1); w_save_vars(v0);
        ev_pm = chance(25) ? 20 + rn(120) : 0; pr_seed(&HE, rnd(), 77); pr_seed(&HU, rnd(), 78);
        if (ev_pm) CNT("streams_with_background_events");
        in_reset();
        nlines = 2 + (int)rn(11);
        for (int l = 0; l < nlines; l++) {
                size_t before = INLEN;
                if (chance(8)) { static const char *ab[] = { "A", "AT", "AT+", "at?", "AT=", "AT=?", "ATZ=?\r", "\rA\rT\r" }; in_puts(ab[rn(8)]); if (chance(30)) in_putc('\r'); in_putc('\n'); }
                else eng_gen_line();
                struct ref_line r; ref_parse_line(INB + before, INLEN - before - 1, W.capA, &r);
                line_crlf[l] = r.crlf; line_cls[l] = class_of(&r) * 2 + (r.crlf ? 1 : 0);
        }
        all_len = INLEN; memcpy(all_in, INB, INLEN);
        for (int i = 0; i < MAXL; i++) { free(snap[i]); snap[i] = NULL; }
        nsnap = 0; lines_started = 0; solo_line = -1;
        sch_eager(&RS); sch_eager(&WS);
        if (chance(30)) { sch_bern(&RS, 40 + rn(55), rnd()); CNT("streams_with_paced_input"); }      /* the stream arrives in chunks (pauses anywhere, also behind a stray CR or inside a broken prefix); the single lines are fed at once */
        out_reset();
        bool q = run_stream((int)rn(2), v0);
        sch_eager(&RS);
        if (!q) { inconclusive("stream run did not reach quiescence (C15's subject)"); return; }
        seq_n = 0; for (size_t i = 0; i < OUTN && seq_n < sizeof seq_out; i++) if (OUTP[i] == 'A') seq_out[seq_n++] = OUTB[i];      /* bytes of the command producer */
        /* line by line on fresh parsers */
        cat_n = 0; size_t ls = 0; int li = 0;
        for (size_t i = 0; i < all_len && !case_failed(); i++) {
                if (all_in[i] != '\n') continue;
                size_t ll = i + 1 - ls;
                if (li % 3 == 2) { solo_line = li; dirty_object(); }       /* leave the object that is about to be re-initialised in the middle of a line, with events queued, possibly held */
                memcpy(INB, all_in + ls, ll); INLEN = ll;
                solo_line = li;
                seed_line(li);
                out_reset();
                if (!run_stream(li % 3 == 2 ? 3 : (li & 1), li < nsnap && snap[li] ? snap[li] : v0)) {      /* fresh zeroed / fresh garbage-filled / the previous line's object re-initialised with cat_init */ inconclusive("solo run did not reach quiescence"); solo_line = -1; return; }
                for (size_t q = 0; q < OUTN && cat_n < sizeof cat_out; q++) if (OUTP[q] == 'A') cat_out[cat_n++] = OUTB[q];
                ls = i + 1; li++;
        }
        solo_line = -1;
        memcpy(INB, all_in, all_len); INLEN = all_len;
        if (cat_n != seq_n || memcmp(cat_out, seq_out, seq_n) != 0) {
                size_t d = 0; while (d < cat_n && d < seq_n && cat_out[d] == seq_out[d]) d++;
                snprintf(detail, sizeof detail, "first difference at output offset %zu", d);
                viol("C20", "depends-on-earlier-lines", "output of the stream (%zu bytes) differs from the concatenation of the single-line outputs (%zu bytes) at offset %zu", seq_n, cat_n, d);
        }
        int nb = 0; uint64_t h = hash_u64(W.ncmds, 20);
        for (int l = 0; l < nlines; l++) { if (line_cls[l] / 2 != 0) nb++; h = hash_u64((uint64_t)line_cls[l], h); if (l) DSET("class_pairs", (uint64_t)(line_cls[l - 1] * 64 + line_cls[l] + 1)); }
        if (nb >= 2) nontrivial(h);
        CNTN("lines", nlines); CNT("streams");
        if (sample_wanted()) { char b[400]; fmt_bytes(b, sizeof b, all_in, all_len > 110 ? 110 : all_len); sample_printf("%zu commands, %d lines \"%s\"%s: stream output (%zu bytes) == concatenation of %d single-line outputs", W.ncmds, nlines, b, all_len > 110 ? "..." : "", seq_n, li); }
}
int main(int argc, char **argv) { MY_PROP = "C20"; PROG_NAME = "chk_C20"; return verif_main(argc, argv); }
