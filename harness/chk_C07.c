/* C07 — READ output fed back as WRITE arguments restores every variable value.
 * Purely metamorphic (no model): real formatter o real parser = identity on the value range. */
#include "common.h"
#include "refmodel.h"

const char *CHK_RULE = "one case = one command with 1..6 read-write variables of mixed types (30% of the tuples also hold read-only variables, 25% print the line several times through a read handler returning DATA_NEXT and a later row is fed back); AT+RT? is captured, the variables are scrambled, AT+RT=<captured text> must be "
                       "answered OK and restore every variable (strings up to and including the NUL); sweep: every 8- and 16-bit pattern (thorough: all, quick: stride) for the "
                       "three numeric types, every buffer size 1..64; random: boundary-biased 32-bit values, 0x00/0x80/0xFF-heavy buffers, strings rich in quote, backslash, LF, "
                       "comma; capacities from generous down to exactly fitting; every case non-trivial; distinct by (types, sizes, value bytes)";
static char note[200]; static uint8_t orig[6][80]; static uint8_t argtext[4096]; static size_t arglen;
void chk_describe(FILE *f) { w_describe(f); fprintf(f, "%s\n", note); char b[6000]; fmt_bytes(b, sizeof b, argtext, arglen > 1400 ? 1400 : arglen); fprintf(f, "captured READ arguments: \"%s\"\n", b); io_describe(f); }

static struct { int type; size_t size; uint8_t val[80]; } SP[6]; static int NV;
static bool with_events, got_data; static char data_unit[4600]; static size_t data_len; static int ncodes, last_ok;
static int ACC[6];                      /* access of each variable: read-write, or (mixed tuples) read-only: printed by READ, accepted and skipped by WRITE */
static int rows_wanted, rows_seen, row_pick;      /* multi-row READ: the command's read handler asks for the automatically formatted line several times */
static cat_return_state rows_policy(struct hcall *h)
{
        if (h->fsm != FSM_A || h->kind != K_READ) return CAT_RETURN_STATE_DATA_OK;
        return ++rows_seen < rows_wanted ? CAT_RETURN_STATE_DATA_NEXT : CAT_RETURN_STATE_DATA_OK;
}
static int units_seen;
static bool via_event;      /* the READ text is taken from an unsolicited READ event of the command (separate event buffer, larger than the command buffer; long command name) */
static void on_unit(bool isA, bool raw, const char *text, size_t len, bool a, bool b)
{
        (void)raw; (void)a; (void)b;
        if (!isA && via_event && !got_data && strncmp(text, "+RT", 3) == 0 && len < sizeof data_unit) { memcpy(data_unit, text, len + 1); data_len = len; got_data = true; return; }
        if (!isA) return;
        if (strcmp(text, "OK") == 0 || strcmp(text, "ERROR") == 0) { ncodes++; last_ok = text[0] == 'O'; return; }
        if (units_seen++ <= row_pick && len < sizeof data_unit) { memcpy(data_unit, text, len + 1); data_len = len; got_data = true; }      /* the row that is fed back */
}
/* service to quiescence; with events enabled one READ event of "+EV" is triggered at a random service step */
static bool service_with_event(int nev)
{
        long trig = with_events ? (long)rn(60) : -1;
        for (long i = 0; i < 400000; i++) {
                if (i == trig && nev) (void)cat_trigger_unsolicited_event(W.at, W.cmd[1], CAT_CMD_TYPE_READ);
                cat_status st = svc();
                if (st == CAT_STATUS_OK && INPOS >= INLEN && i >= trig) return true;
        }
        return false;
}
static uint32_t edge32(void)
{
        static const uint32_t e[] = { 0, 1, 0x7f, 0x80, 0xff, 0x100, 0x7fff, 0x8000, 0xffff, 0x10000, 0x7fffffff, 0x80000000u, 0xffffffffu, 0x80000001u, 0xfffffffeu,
                                      10, 100, 1000, 10000, 100000, 1000000, 10000000, 100000000, 1000000000, 0x1000, 0x100000, 0x1000000, 0x10000000 };      /* digit counts change at the powers of ten / sixteen */
        uint32_t x = chance(60) ? e[rn(sizeof e / sizeof e[0])] + rn(3) - 1 : (uint32_t)(rnd() >> rn(64));
        return chance(15) ? (uint32_t)(0u - x) : x;
}
static void rand_spec(int j)
{
        SP[j].type = (int)rn(5);
        if (SP[j].type <= CAT_VAR_NUM_HEX) { SP[j].size = (size_t[]){ 1, 2, 4 }[rn(3)]; uint32_t x = edge32(); memcpy(SP[j].val, &x, 4); }
        else if (SP[j].type == CAT_VAR_BUF_HEX) { SP[j].size = chance(25) ? 17 + rn(48) : 1 + rn(chance(20) ? 64 : 8); for (size_t b = 0; b < SP[j].size; b++) SP[j].val[b] = (uint8_t)(chance(40) ? (uint8_t[]){ 0x00, 0x80, 0xff, 0x7f }[rn(4)] : rnd()); }
        else {
                SP[j].size = 1 + rn(chance(20) ? 64 : 8);
                size_t L = rn((unsigned)SP[j].size);
                for (size_t b = 0; b < SP[j].size; b++) {
                        uint8_t ch; do { unsigned r = rn(10); ch = r == 0 ? '"' : r == 1 ? '\\' : r == 2 ? '\n' : r == 3 ? ',' : r == 4 ? (uint8_t)(0x80 + rn(128)) : r == 5 ? '?' : (uint8_t)(1 + rn(255)); } while (ch == 0 || ch == '\r');
                        SP[j].val[b] = b < L ? ch : 0;
                }
                if (L >= 3 && chance(12)) { static const char *nasty[] = { "+++", "AT+", "\x1b[C", "\\\\\"", "=?", ",,," }; const char *q = nasty[rn(6)]; size_t ql = strlen(q); if (ql <= L) memcpy(SP[j].val + rn((unsigned)(L - ql + 1)), q, ql); }      /* character runs that mean something elsewhere (modem escape, command prefix, cursor key, ...): inside a string they are data */
                if (chance(50)) for (size_t b = L + 1; b < SP[j].size; b++) SP[j].val[b] = (uint8_t)rnd();   /* garbage behind the terminator must not matter */
        }
}
static void round_trip(int capmode)
{
        w_begin();
        with_events = chance(35);
        struct cat_command *a = w_group(with_events ? 2 : 1, false);
        via_event = !with_events && capmode == 0 && chance(15);
        static const char LONGNAME[] = "+RT_A_RATHER_LONG_COMMAND_NAME_0123456789";
        a[0].name = xstr(via_event && chance(70) ? LONGNAME : "+RT"); a[0].need_all_vars = chance(50);
        size_t nlen = strlen(a[0].name);
        if (with_events) {      /* an unsolicited READ of another command is formatted and flushed while the round trip is in progress */
                a[1].name = xstr("+EV");
                struct cat_variable *ev = w_vars(&a[1], 2);
                ev[0].type = CAT_VAR_BUF_HEX; { size_t sz = chance(60) ? 17 + rn(48) : 1 + rn(16); uint8_t *d = w_vdata(&ev[0], sz); for (size_t b = 0; b < sz; b++) d[b] = (uint8_t)rnd(); }
                ev[1].type = CAT_VAR_BUF_STRING; { uint8_t *d = w_vdata(&ev[1], 12); memcpy(d, "ev\"t,\\x", 8); }
        }
        struct cat_variable *v = w_vars(&a[0], (size_t)NV);
        rows_wanted = (!via_event && chance(25)) ? 2 + (int)rn(3) : 1; rows_seen = 0; row_pick = (int)rn((unsigned)rows_wanted); units_seen = 0;
        if (rows_wanted > 1) { a[0].read = h_read; POLICY = rows_policy; CNT("multi_row_reads"); }
        for (int j = 0; j < NV; j++) { v[j].type = (cat_var_type)SP[j].type; v[j].access = (cat_var_access)ACC[j]; uint8_t *d = w_vdata(&v[j], SP[j].size); memcpy(d, SP[j].val, SP[j].size); memcpy(orig[j], d, SP[j].size); }
        /* capacity: the response text is "+RT=" + args; the write needs args+1 <= cap.  capmode 0 generous, 1 exactly fitting the READ text, 2 one more */
        char ref[5000]; int tl = ref_fmt_read(&a[0], ref, sizeof ref);
        size_t cap = 4200;
        if (capmode && tl > 0) cap = (size_t)tl + 1 + (size_t)(capmode - 1);
        if (cap < 8) cap = 8;
        bool shared = chance(50);
        if (via_event) { shared = false; if (tl > 0) cap = (size_t)tl - nlen + rn(3); if (cap < 8) cap = 8; }      /* the command buffer just holds the argument list: the event line (name included) is longer than it */
        w_buffers(shared ? cap * 2 + rn(2) : cap, shared, via_event ? 4300 : with_events ? 200 : 0);
        w_init((int)rn(2));
        ON_UNIT = on_unit;
        in_reset(); if (!via_event) { in_puts("AT"); in_puts(a[0].name); in_puts("?\n"); } out_reset(); units_reset(); got_data = false; ncodes = 0; units_seen = 0;
        if (via_event) { (void)cat_trigger_unsolicited_event(W.at, &a[0], CAT_CMD_TYPE_READ); ncodes = 1; last_ok = 1; CNT("read_texts_taken_from_an_event"); }
        if (!service_with_event(1)) { inconclusive("no quiescence"); return; }
        if (!got_data || ncodes != 1 || last_ok != 1 || strncmp(data_unit, a[0].name, nlen) != 0 || data_unit[nlen] != '=') {
                if (capmode == 0) viol("C07", "read-refused", "AT+RT? with generous capacity was not answered with a data line and OK");
                else if (tl > 0 && W.capA >= (size_t)tl + 1) viol("C07", "read-refused", "AT+RT? was not answered although the text of %d bytes fits the command capacity of %zu: nothing to feed back", tl, W.capA);
                else CNT("read_did_not_fit");
                return;
        }
        arglen = data_len - (nlen + 1); memcpy(argtext, data_unit + nlen + 1, arglen);
        for (int j = 0; j < NV; j++) { if (ACC[j] != CAT_VAR_ACCESS_READ_WRITE) continue; uint8_t *d = v[j].data; for (size_t b = 0; b < SP[j].size; b++) d[b] = (uint8_t)(SP[j].type == CAT_VAR_BUF_STRING ? 0xA5 + b : d[b] ^ 0x5A); }
        in_reset(); in_puts("AT"); in_puts(a[0].name); in_putc('='); in_put(argtext, arglen); in_putc('\n'); out_reset(); units_reset(); got_data = false; ncodes = 0; units_seen = 1000;
        if (!service_with_event(1)) { inconclusive("no quiescence"); return; }
        CNT("round_trips"); if (with_events) CNT("round_trips_with_concurrent_events");
        { bool ro = false; for (int j = 0; j < NV; j++) if (ACC[j] != CAT_VAR_ACCESS_READ_WRITE) ro = true; if (ro) CNT("round_trips_with_read_only_variables_in_the_list"); }
        if (rows_wanted > 1 && row_pick > 0) CNT("round_trips_of_a_later_row");
        if (!(RESULT_CODES == 1 && LAST_CODE == 'O')) { viol("C07", "write-back-refused", "the argument list printed by READ was not accepted by WRITE (capacity %zu, text %zu bytes)", W.capA, arglen); return; }
        for (int j = 0; j < NV; j++) {
                size_t n = SP[j].size;
                if (SP[j].type == CAT_VAR_BUF_STRING) n = strnlen((char *)orig[j], SP[j].size) + 1;
                if (n > SP[j].size) n = SP[j].size;
                if (memcmp(orig[j], v[j].data, n) != 0) { viol("C07", "value-not-restored", "variable %d (type %d, size %zu) does not hold its original value after the round trip", j, SP[j].type, SP[j].size); return; }
        }
        if (capmode) CNT("round_trips_at_exact_capacity");
        uint64_t h = 70; for (int j = 0; j < NV; j++) h = hash_bytes(orig[j], SP[j].size, hash_u64((uint64_t)(SP[j].type * 100 + (int)SP[j].size), h));
        nontrivial(h);
        if (sample_wanted()) { char b[300]; fmt_bytes(b, sizeof b, argtext, arglen > 80 ? 80 : arglen); sample_printf("%d variable(s), capacity %zu: AT+RT? printed \"%s\"; after scrambling, AT+RT=<that> restored every value", NV, W.capA, b); }
}

/* sweep: numeric type (3) x width 8/16 bit: all patterns, stride in quick; then buffer sizes */
static long stride(void) { return strcmp(TIER, "thorough") == 0 ? 1 : 37; }
static long n_num(void) { return 3 * ((256 + 65536) / stride() + 2); }
struct case_budget chk_budget(const char *tier)
{
        struct case_budget b = { 0, strcmp(tier, "thorough") == 0 ? 20000000 : 500000 };
        TIER = tier; b.sweep = n_num() + 64 * 2 * 3;
        return b;
}
void chk_run_case(uint64_t seed, long c, bool is_sweep)
{
        (void)seed; note[0] = 0;
        for (int j = 0; j < 6; j++) ACC[j] = CAT_VAR_ACCESS_READ_WRITE;
        if (is_sweep) {
                long per = n_num() / 3;
                if (c < n_num()) {
                        int type = (int)(c / per); long k = (c % per) * stride();
                        NV = 1; SP[0].type = type;
                        if (k < 256) { SP[0].size = 1; SP[0].val[0] = (uint8_t)k; } else { uint16_t x = (uint16_t)(k - 256); SP[0].size = 2; memcpy(SP[0].val, &x, 2); }
                        snprintf(note, sizeof note, "sweep: numeric type %d, %zu-bit pattern 0x%lx", type, SP[0].size * 8, k < 256 ? k : k - 256);
                        round_trip(0);
                } else {
                        long k = c - n_num(); size_t size = 1 + (size_t)(k % 64); int is_str = (int)((k / 64) % 2), capmode = (int)(k / 128);
                        NV = 1 + (int)rn(2); rand_spec(0); rand_spec(1);
                        SP[0].type = is_str ? CAT_VAR_BUF_STRING : CAT_VAR_BUF_HEX; SP[0].size = size;
                        for (size_t b = 0; b < size; b++) { uint8_t ch; do ch = (uint8_t)(chance(40) ? (uint8_t[]){ '"', '\\', '\n', ',', 0x80, 0xff }[rn(6)] : rnd()); while (is_str && (ch == 0 || ch == '\r')); SP[0].val[b] = ch; }
                        if (is_str) SP[0].val[size - 1 - rn(chance(70) ? 1 : (unsigned)size)] = 0;
                        snprintf(note, sizeof note, "sweep: %s of data_size %zu, capacity mode %d", is_str ? "string" : "hex buffer", size, capmode);
                        round_trip(capmode);
                }
                return;
        }
        NV = 1 + (int)rn(6);
        for (int j = 0; j < NV; j++) rand_spec(j);
        if (NV >= 2 && chance(30)) { int rw = (int)rn((unsigned)NV); for (int j = 0; j < NV; j++) if (j != rw && chance(50)) ACC[j] = CAT_VAR_ACCESS_READ_ONLY; }      /* at least one read-write variable stays */
        snprintf(note, sizeof note, "random tuple of %d variables", NV);
        round_trip(chance(30) ? 1 + (int)rn(2) : 0);
}
int main(int argc, char **argv) { MY_PROP = "C07"; PROG_NAME = "chk_C07"; return verif_main(argc, argv); }
