#include "refmodel.h"
#include <ctype.h>

static char up(char c) { return (c >= 'a' && c <= 'z') ? (char)(c - 32) : c; }
static bool name_char(char u) { return (u >= 'A' && u <= 'Z') || (u >= '0' && u <= '9') || (u != 0 && strchr("+#$@_%&", u) != NULL); }
static bool ci_prefix(const char *name, const char *typed, size_t n)
{
        for (size_t i = 0; i < n; i++) {
                if (name[i] == 0) return false;
                if (up(name[i]) != typed[i]) return false;
        }
        return true;
}

bool ref_has_vars(const struct cat_command *c) { return c->var != NULL && c->var_num > 0; }
static bool ref_access(const struct cat_command *c, cat_var_access dir)
{
        if (c->var == NULL) return false;
        for (size_t j = 0; j < c->var_num; j++)
                if (c->var[j].access == CAT_VAR_ACCESS_READ_WRITE || c->var[j].access == dir) return true;
        return false;
}
bool ref_readable(const struct cat_command *c) { return ref_access(c, CAT_VAR_ACCESS_READ_ONLY); }
bool ref_writable(const struct cat_command *c) { return ref_access(c, CAT_VAR_ACCESS_WRITE_ONLY); }

int ref_resolve(const char *typed, size_t n, bool *exact, bool *ambiguous)
{
        if (exact) *exact = false;
        if (ambiguous) *ambiguous = false;
        for (size_t i = 0; i < W.ncmds; i++)
                if (cmd_enabled((int)i) && strlen(W.cmd[i]->name) == n && ci_prefix(W.cmd[i]->name, typed, n)) { if (exact) *exact = true; return (int)i; }
        int found = -1, cnt = 0;
        for (size_t i = 0; i < W.ncmds; i++)
                if (cmd_enabled((int)i) && strlen(W.cmd[i]->name) > n && ci_prefix(W.cmd[i]->name, typed, n)) { cnt++; found = (int)i; }
        if (cnt == 1) return found;
        if (cnt > 1 && ambiguous) *ambiguous = true;
        return -1;
}

static void copy_args(struct ref_line *r, const uint8_t *p, size_t n)
{
        r->nargs = 0;
        for (size_t i = 0; i < n; i++)
                if (p[i] != '\r' && r->nargs < sizeof r->args) r->args[r->nargs++] = p[i];
}
static bool only_cr(const uint8_t *p, size_t n) { for (size_t i = 0; i < n; i++) if (p[i] != '\r') return false; return true; }

static void finish_write(struct ref_line *r, const uint8_t *rest, size_t nrest, size_t capA)
{
        const struct cat_command *c = W.cmd[r->ci];
        r->kind = K_WRITE;
        /* first argument byte (CRs do not count) */
        size_t k = 0;
        while (k < nrest && rest[k] == '\r') k++;
        if (k < nrest && rest[k] == '?' && !r->implicit && (c->test != NULL || ref_has_vars(c))) {
                if (!only_cr(rest + k + 1, nrest - k - 1)) { r->cls = RL_ERROR; r->err = RE_JUNK_AFTER_EQ_Q; return; }
                r->kind = K_TEST; r->nargs = 0; r->cls = RL_REQ;
                return;
        }
        size_t cnt = 0;
        for (size_t i = 0; i < nrest; i++) if (rest[i] != '\r') cnt++;
        if (cnt >= capA) { r->cls = RL_ERROR; r->err = RE_ARGS_TOO_LONG; return; }
        copy_args(r, rest, nrest);
        r->cls = RL_REQ;
}

void ref_parse_line(const uint8_t *line, size_t len, size_t capA, struct ref_line *r)
{
        r->cls = RL_BLANK; r->err = RE_NONE; r->ci = -1; r->kind = -1; r->implicit = false; r->exact = false; r->crlf = false; r->nargs = 0; r->ntyped = 0; r->typed[0] = 0;
        size_t i = 0;
        while (i < len && line[i] == '\r') i++;
        if (i == len) return;
        for (size_t k = i + 1; k < len; k++) if (line[k] == '\r') r->crlf = true;
        r->cls = RL_ERROR;
        if (up((char)line[i]) != 'A') { r->err = RE_NO_A; return; }
        i++;
        while (i < len && line[i] == '\r') i++;
        if (i == len || up((char)line[i]) != 'T') { r->err = RE_NO_T; return; }
        i++;
        bool toolong = false;
        for (;;) {
                while (i < len && line[i] == '\r') i++;
                if (i == len) {
                        if (r->ntyped == 0) { r->cls = RL_BARE_OK; return; }
                        r->kind = K_RUN;
                        break;
                }
                char ch = up((char)line[i]);
                if (ch == '?') {
                        if (r->ntyped == 0) { r->err = RE_EMPTY_NAME_SUFFIX; return; }
                        if (!only_cr(line + i + 1, len - i - 1)) { r->err = RE_JUNK_AFTER_Q; return; }
                        r->kind = K_READ;
                        break;
                }
                if (ch == '=') {
                        if (r->ntyped == 0) { r->err = RE_EMPTY_NAME_SUFFIX; return; }
                        r->kind = K_WRITE;
                        i++;
                        break;
                }
                if (!name_char(ch)) { r->err = RE_BAD_NAME_CHAR; return; }
                if (r->ntyped + 1 < sizeof r->typed) { r->typed[r->ntyped] = ch; r->typed[r->ntyped + 1] = 0; } else toolong = true;
                r->ntyped++;
                i++;
                if (toolong) continue;
                /* implicit write: some enabled implicit-write command is named exactly like the text typed so far */
                bool imp = false;
                for (size_t c = 0; c < W.ncmds; c++)
                        if (cmd_enabled((int)c) && W.cmd[c]->implicit_write && strlen(W.cmd[c]->name) == r->ntyped && ci_prefix(W.cmd[c]->name, r->typed, r->ntyped)) imp = true;
                if (imp) {
                        r->implicit = true;
                        r->ci = ref_resolve(r->typed, r->ntyped, &r->exact, NULL);
                        finish_write(r, line + i, len - i, capA);
                        return;
                }
        }
        bool amb = false;
        r->ci = toolong ? -1 : ref_resolve(r->typed, r->ntyped, &r->exact, &amb);
        if (r->ci < 0) { r->err = amb ? RE_AMBIGUOUS : RE_NO_MATCH; return; }
        if (r->kind == K_WRITE) { finish_write(r, line + i, len - i, capA); return; }
        r->cls = RL_REQ;
}

int ref_gate(const struct ref_line *r)
{
        const struct cat_command *c = W.cmd[r->ci];
        switch (r->kind) {
        case K_RUN:
                if (c->only_test || c->run == NULL) return RG_ERROR;
                return RG_RUN_HANDLER;
        case K_READ:
                if (c->only_test) return RG_ERROR;
                if (strlen(c->name) + 2 > W.capA) return RG_ERROR;
                if (ref_readable(c)) {          /* the automatic text is produced first: if it does not fit the command buffer the request ends with ERROR before any handler */
                        static char t[70000]; int n = ref_fmt_read(c, t, sizeof t);
                        return (n < 0 || (size_t)n + 1 > W.capA) ? RG_ERROR : RG_READ;
                }
                return c->read ? RG_READ : RG_ERROR;
        case K_WRITE:
                if (c->only_test) return RG_ERROR;
                if (ref_writable(c)) return RG_WRITE;
                return c->write ? RG_WRITE : RG_ERROR;
        case K_TEST: {
                static char t[70000]; int n = ref_fmt_test(c, r->crlf ? "\r\n" : "\n", t, sizeof t);
                return (n < 0 || (size_t)n + 1 > W.capA) ? RG_ERROR : RG_TEST;
        }
        }
        return RG_ERROR;
}

bool ref_form_accepted(int ci, int kind)
{
        const struct cat_command *c = W.cmd[ci];
        if (!cmd_enabled(ci)) return false;
        switch (kind) {
        case K_RUN: return !c->only_test && c->run != NULL;
        case K_READ: return !c->only_test && (c->read != NULL || ref_readable(c));
        case K_WRITE: return !c->only_test && (c->write != NULL || ref_writable(c));
        case K_TEST: return c->test != NULL || ref_has_vars(c);
        }
        return false;
}

/* ------------------------------------------------------------ formatters */
static bool supported_int(size_t n) { return n == 1 || n == 2 || n == 4; }
int ref_fmt_value(const struct cat_variable *v, char *out, size_t cap)
{
        const uint8_t *d = v->data;
        bool wo = v->access == CAT_VAR_ACCESS_WRITE_ONLY;
        size_t o = 0;
        switch (v->type) {
        case CAT_VAR_INT_DEC: {
                if (!supported_int(v->data_size)) return -1;
                uint32_t u = 0; memcpy(&u, d, v->data_size);
                long long x = v->data_size == 1 ? (int8_t)u : v->data_size == 2 ? (int16_t)u : (int32_t)u;
                if (wo) x = 0;
                return snprintf(out, cap, "%lld", x); }
        case CAT_VAR_UINT_DEC: {
                if (!supported_int(v->data_size)) return -1;
                uint32_t u = 0; memcpy(&u, d, v->data_size);
                if (wo) u = 0;
                return snprintf(out, cap, "%llu", (unsigned long long)u); }
        case CAT_VAR_NUM_HEX: {
                if (!supported_int(v->data_size)) return -1;
                uint32_t u = 0; memcpy(&u, d, v->data_size);
                if (wo) u = 0;
                return snprintf(out, cap, "0x%0*llX", (int)(v->data_size * 2), (unsigned long long)u); }
        case CAT_VAR_BUF_HEX:
                for (size_t i = 0; i < v->data_size && o + 3 < cap; i++) o += (size_t)snprintf(out + o, cap - o, "%02X", wo ? 0u : (unsigned)d[i]);
                out[o] = 0;
                return (int)o;
        case CAT_VAR_BUF_STRING:
                out[o++] = '"';
                for (size_t i = 0; !wo && i < v->data_size && o + 4 < cap; i++) {
                        uint8_t ch = d[i];
                        if (ch == 0) break;
                        if (ch == '\\') { out[o++] = '\\'; out[o++] = '\\'; }
                        else if (ch == '"') { out[o++] = '\\'; out[o++] = '"'; }
                        else if (ch == '\n') { out[o++] = '\\'; out[o++] = 'n'; }
                        else out[o++] = (char)ch;
                }
                out[o++] = '"'; out[o] = 0;
                return (int)o;
        }
        return -1;
}
int ref_fmt_read(const struct cat_command *c, char *out, size_t cap)
{
        size_t o = (size_t)snprintf(out, cap, "%s=", c->name);
        if (!ref_readable(c)) return (int)o;
        for (size_t j = 0; j < c->var_num; j++) {
                if (j) out[o++] = ',';
                int n = ref_fmt_value(&c->var[j], out + o, cap - o);
                if (n < 0) return -1;
                o += (size_t)n;
        }
        out[o] = 0;
        return (int)o;
}
static const char *type_name(const struct cat_variable *v, char *b)
{
        const char *base = v->type == CAT_VAR_INT_DEC ? "INT" : v->type == CAT_VAR_UINT_DEC ? "UINT" : v->type == CAT_VAR_NUM_HEX ? "HEX" : NULL;
        if (base) { if (!supported_int(v->data_size)) return NULL; sprintf(b, "%s%zu", base, v->data_size * 8); return b; }
        return v->type == CAT_VAR_BUF_HEX ? "HEXBUF" : v->type == CAT_VAR_BUF_STRING ? "STRING" : NULL;
}
int ref_fmt_test(const struct cat_command *c, const char *nl, char *out, size_t cap)
{
        size_t o = (size_t)snprintf(out, cap, "%s=", c->name);
        for (size_t j = 0; ref_has_vars(c) && j < c->var_num; j++) {
                const struct cat_variable *v = &c->var[j];
                char tb[16]; const char *tn = type_name(v, tb);
                if (!tn) return -1;
                o += (size_t)snprintf(out + o, cap - o, "%s<%s%s%s[%s]>", j ? "," : "", v->name ? v->name : "", v->name ? ":" : "", tn,
                                      v->access == CAT_VAR_ACCESS_READ_WRITE ? "RW" : v->access == CAT_VAR_ACCESS_READ_ONLY ? "RO" : "WO");
        }
        if (c->description) o += (size_t)snprintf(out + o, cap - o, "%s%s", nl, c->description);
        return (int)o;
}
size_t ref_fmt_list(char *out, size_t cap, const char *nl, size_t *longest)
{
        static const char *sfx[4] = { "", "?", "=", "=?" };
        size_t o = 0;
        if (longest) *longest = 0;
        out[0] = 0;
        for (size_t i = 0; i < W.ncmds; i++) {
                if (!cmd_enabled((int)i)) continue;
                bool first = true;
                for (int k = 0; k < 4; k++) {
                        if (!ref_form_accepted((int)i, k)) continue;
                        size_t n = (size_t)snprintf(out + o, cap - o, "%sAT%s%s%s", first ? nl : "", W.cmd[i]->name, sfx[k], nl);
                        first = false;
                        if (longest && n > *longest) *longest = n;
                        o += n;
                }
        }
        return o;
}

/* ------------------------------------------------------ argument decoding */
static int cmp_dec(const uint8_t *a, size_t an, const char *b)
{
        while (an > 1 && *a == '0') { a++; an--; }
        size_t bn = strlen(b);
        if (an != bn) return an < bn ? -1 : 1;
        return memcmp(a, b, an);
}
int ref_num(int type, size_t size, const uint8_t *s, size_t n, uint8_t *out)
{
        if (type == CAT_VAR_NUM_HEX) {
                if (n < 3 || s[0] != '0' || (s[1] != 'x' && s[1] != 'X')) return 0;
                const uint8_t *h = s + 2; size_t hn = n - 2;
                for (size_t i = 0; i < hn; i++) if (!isxdigit(h[i])) return 0;
                while (hn > 1 && *h == '0') { h++; hn--; }
                if (!supported_int(size) || hn > size * 2) return 0;
                uint32_t v = 0;
                for (size_t i = 0; i < hn; i++) { int ch = toupper(h[i]); v = v * 16 + (uint32_t)(ch <= '9' ? ch - '0' : ch - 'A' + 10); }
                memcpy(out, &v, size);
                return 1;
        }
        bool neg = false; size_t i = 0;
        if (type == CAT_VAR_INT_DEC && n > 0 && (s[0] == '-' || s[0] == '+')) { neg = s[0] == '-'; i = 1; }
        if (i >= n) return 0;
        for (size_t k = i; k < n; k++) if (s[k] < '0' || s[k] > '9') return 0;
        const char *maxs;
        if (type == CAT_VAR_UINT_DEC) maxs = size == 1 ? "255" : size == 2 ? "65535" : size == 4 ? "4294967295" : NULL;
        else maxs = size == 1 ? (neg ? "128" : "127") : size == 2 ? (neg ? "32768" : "32767") : size == 4 ? (neg ? "2147483648" : "2147483647") : NULL;
        if (!maxs || cmp_dec(s + i, n - i, maxs) > 0) return 0;
        uint64_t v = 0;
        for (size_t k = i; k < n; k++) v = v * 10 + (uint64_t)(s[k] - '0');     /* cannot overflow: bounded by maxs */
        int64_t sv = neg ? -(int64_t)v : (int64_t)v;
        memcpy(out, &sv, size);
        return 1;
}

bool ref_num_grammar(int type, const uint8_t *s, size_t n)
{
        if (type == CAT_VAR_NUM_HEX) {
                if (n < 3 || s[0] != '0' || (s[1] != 'x' && s[1] != 'X')) return false;
                for (size_t i = 2; i < n; i++) if (!isxdigit(s[i])) return false;
                return true;
        }
        size_t i = 0;
        if (type == CAT_VAR_INT_DEC && n > 0 && (s[0] == '-' || s[0] == '+')) i = 1;
        if (i >= n) return false;
        for (size_t k = i; k < n; k++) if (s[k] < '0' || s[k] > '9') return false;
        return true;
}

void ref_parse_args(const struct cat_command *c, const uint8_t *args, size_t n, struct ref_wres *res)
{
        memset(res, 0, sizeof *res);
        res->fail_at = -1;
        for (size_t i = 0; i < n; i++) if (args[i] == 0) { n = i; break; }   /* C-string semantics; generators avoid NUL here */
        size_t pos = 0, idx = 0;
        for (;;) {
                const struct cat_variable *v = &c->var[idx];
                bool ro = v->access == CAT_VAR_ACCESS_READ_ONLY;
                bool good = true, comma = false;
                res->v[idx].stores = !ro;
                if (v->type == CAT_VAR_BUF_STRING) {
                        uint8_t *dec = res->v[idx].val; size_t dn = 0, q = pos;
                        if (q >= n || args[q] != '"') good = false;
                        else {
                                q++;
                                bool closed = false;
                                while (good && q < n) {
                                        uint8_t ch = args[q++];
                                        if (ch == '"') { closed = true; break; }
                                        if (ch == '\\') {
                                                if (q >= n) { good = false; break; }
                                                uint8_t e = args[q++];
                                                ch = e == '\\' ? '\\' : e == '"' ? '"' : e == 'n' ? '\n' : 0;
                                                if (ch == 0) { good = false; break; }
                                        }
                                        if (dn >= v->data_size || dn >= sizeof res->v[idx].val - 1) { good = false; break; }
                                        dec[dn++] = ch;
                                }
                                if (good && !closed) good = false;
                                if (good && q < n && args[q] != ',') good = false;
                                if (good && dn + 1 > v->data_size) good = false;
                                if (good) { comma = q < n; pos = q + 1; dec[dn] = 0; res->v[idx].nval = dn + 1; res->v[idx].write_size = ro ? 0 : dn; }
                        }
                } else {
                        size_t e = pos;
                        while (e < n && args[e] != ',') e++;
                        comma = e < n;
                        const uint8_t *f = args + pos; size_t fn = e - pos;
                        if (v->type == CAT_VAR_BUF_HEX) {
                                if (fn == 0 || (fn & 1) || fn / 2 > v->data_size || fn / 2 > sizeof res->v[idx].val) good = false;
                                for (size_t k = 0; good && k < fn; k++) if (!isxdigit(f[k])) good = false;
                                if (good) {
                                        for (size_t k = 0; k < fn / 2; k++) {
                                                int a = toupper(f[2 * k]), b = toupper(f[2 * k + 1]);
                                                res->v[idx].val[k] = (uint8_t)(((a <= '9' ? a - '0' : a - 'A' + 10) << 4) | (b <= '9' ? b - '0' : b - 'A' + 10));
                                        }
                                        res->v[idx].nval = fn / 2; res->v[idx].write_size = ro ? 0 : fn / 2;
                                }
                        } else {
                                good = ref_num((int)v->type, v->data_size, f, fn, res->v[idx].val) != 0;
                                if (!good && ro && ref_num_grammar((int)v->type, f, fn)) { res->unspecified = true; res->parsed = idx; return; }
                                if (good) { res->v[idx].nval = v->data_size; res->v[idx].write_size = ro ? 0 : v->data_size; }
                        }
                        pos = e + 1;
                }
                if (!good) { res->v[idx].status = RV_REJECTED; res->fail_at = (int)idx; res->parsed = idx; return; }
                res->v[idx].status = RV_ACCEPTED;
                idx++;
                if (idx < c->var_num && comma) continue;
                res->parsed = idx;
                if (comma) return;                                          /* surplus arguments */
                if (c->need_all_vars && idx != c->var_num) return;
                res->ok = true;
                return;
        }
}
