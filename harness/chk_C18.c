/* C18 — cat_is_busy / cat_is_hold never report idle while work is in flight.
 * Monitor (engine.c eng_after_service): both queries sampled after every cat_service call and compared with
 * harness-side knowledge: partially consumed line, consumed line without complete result code, open output unit
 * of either producer (unit trackers), hold interval. */
#include "engine.h"

const char *CHK_RULE = "one case = one history sampled after every service call (sweep: an event / a command response whose flush is interrupted by write refusals after "
                       "exactly k accepted bytes, for every k; random: generated histories with inputs cut at random bytes, events, holds, lists under heavy back-pressure); "
                       "non-trivial = at least one sample was taken while a unit was partially emitted; distinct by (samples inside units, idle answers, table size, input length)";
static char mode[100];
void chk_describe(FILE *f) { fprintf(f, "%s\n", mode); eng_describe(f); }
static cat_return_state dataok_policy(struct hcall *h) { (void)h; return CAT_RETURN_STATE_DATA_OK; }

#define N_SWEEP (2 * 40)
static void sweep_case(long item)
{
        int who = (int)(item % 2), k = (int)(item / 2);
        snprintf(mode, sizeof mode, "sweep: %s flush interrupted after %d accepted bytes", who ? "command response" : "event", k);
        w_begin();
        struct cat_command *arr = w_group(2, false);
        arr[0].name = xstr("+U"); { struct cat_variable *v = w_vars(&arr[0], 1); v->type = CAT_VAR_UINT_DEC; uint8_t *d = w_vdata(v, 1); *d = 5; }
        arr[1].name = xstr("+LIST"); arr[1].run = h_run;
        w_buffers(80, (k & 1) != 0, 40);
        w_init(k & 1);
        in_reset();
        if (who) in_puts(k & 2 ? "AT+U?\r\n" : "AT+U=?\n");
        static uint8_t bits[64];
        for (int i = 0; i < 64; i++) bits[i] = (uint8_t)(i < k || i >= k + 4);
        sch_bits(&WS, bits, 64); sch_eager(&RS);
        eng_monitors_install();
        ENG_POLICY_OVERRIDE = dataok_policy; EP.p_handler_trigger = 0;
        if (!who) eng_trigger(0, (k & 2) ? CAT_CMD_TYPE_TEST : CAT_CMD_TYPE_READ);
        long B = eng_progress_bound() + 64, used = 0;
        for (; used < B; used++) { cat_status s = svc(); eng_after_service(s); if (case_failed()) break; if (s == CAT_STATUS_OK && INPOS >= INLEN) break; }
        nontrivial(hash_u64((uint64_t)item, 6));
        ENG_POLICY_OVERRIDE = NULL;
}
struct case_budget chk_budget(const char *tier)
{
        struct case_budget b = { N_SWEEP, strcmp(tier, "thorough") == 0 ? 6000000 : 150000 };
        return b;
}
void chk_run_case(uint64_t seed, long c, bool is_sweep)
{
        (void)seed;
        eng_default_profile();
        if (is_sweep) { sweep_case(c); return; }
        snprintf(mode, sizeof mode, "random history");
        EP.p_event_step = 30 + rn(100); EP.p_backpressure = 90; EP.p_hold = 15; EP.p_list = 10; EP.p_toggle = 15;
        bool mx = chance(15);
        if (mx) { NEXT_WORLD_USE_MUTEX = true; EP.p_handler_trigger = 0; CNT("histories_with_a_mutex_interface"); }      /* with a (non-recursive) mutex interface: a lock that some call forgets to release makes both queries fail from then on */
        eng_gen_table();
        NEXT_WORLD_USE_MUTEX = false;
        eng_gen_input(1 + rn(8));
        eng_random_schedules();
        long u0 = ctr_get("busy_samples_with_open_unit"), i0 = ctr_get("is_busy_idle_answers");
        eng_run_history();
        long nu = ctr_get("busy_samples_with_open_unit") - u0;
        if (nu > 0) { uint64_t h = hash_u64((uint64_t)nu, 8); h = hash_u64((uint64_t)(ctr_get("is_busy_idle_answers") - i0), h); h = hash_u64(W.ncmds, h); h = hash_u64(INLEN, h); nontrivial(h); }
        if (sample_wanted()) { char b[300]; fmt_bytes(b, sizeof b, INB, INLEN > 80 ? 80 : INLEN); sample_printf("%zu commands, input \"%s\": %ld samples taken inside a partially emitted unit (all BUSY), %lld idle answers checked", W.ncmds, b, nu, ctr_get("is_busy_idle_answers") - i0); }
}
int main(int argc, char **argv) { MY_PROP = "C18"; PROG_NAME = "chk_C18"; return verif_main(argc, argv); }
