/* C13 — unsolicited events: bounded FIFO, each accepted event handled exactly once.
 * Oracle: bounded FIFO model + in-progress slot, driven by the trigger results and by hook codes 3 (dequeued)
 * and 4 (event FSM back to idle), so that every query is compared for equality at every point of every history.
 * Independent external facts are checked too (handlers only for the event in progress, first observable action
 * of events in acceptance order, accepted == processed at quiescence, nothing refused ever processed). */
#include "common.h"
#include "refmodel.h"

const char *CHK_RULE = "one case = one history of 50..5000 operations (trigger bursts past capacity, queries before every trigger, service bursts, command lines, holds, "
                       "write back-pressure) against a table of event commands that format and flush / call multi-step handlers / fail at once; non-trivial = the ring wrapped "
                       "at least once (accepted > capacity); distinct by (operations, accepted, refused, capacity, events that failed at once)";

#define NCMD 6
struct evm { int cmd, type; long id; };
static struct evm ring[64]; static int rcount; static struct evm cur; static bool inprog;
static long next_id, last_started, processed, accepted, refused, failed_fast, opn, nops;
static int script_left; static unsigned p_write; static prng_t HP;
static bool hold_active, h2_then_hold; static long started_observed;
static bool saw_action_for_cur, cur_terminal_returned, cur_var_failed, saw_output_for_cur;

static bool model_buffered(int cmd, int type)
{
        if (inprog && cur.cmd == cmd && (type == CAT_CMD_TYPE_NONE || cur.type == type)) return true;
        for (int i = 0; i < rcount; i++) if (ring[i].cmd == cmd && (type == CAT_CMD_TYPE_NONE || ring[i].type == type)) return true;
        return false;
}
static void on_phase(int code)
{
        if (code == 3) {
                if (rcount == 0) { viol("C13", "dequeue-from-empty", "the library dequeued an event although the model queue is empty (phantom or duplicated event)"); return; }
                struct evm e = ring[0];
                memmove(ring, ring + 1, sizeof(struct evm) * (size_t)(rcount - 1)); rcount--;
                if (inprog) viol("C13", "dequeue-while-busy", "event dequeued while event id %ld is still in progress (it would be overwritten)", cur.id);
                const struct cat_command *pc = cat_get_processed_command(W.at, CAT_FSM_TYPE_UNSOLICITED);
                /* what was dequeued is asked through the public queries only: the command in progress, and that it is reported as in progress with the type it was accepted with */
                if (pc != W.cmd[e.cmd] || cat_is_unsolicited_event_buffered(W.at, W.cmd[e.cmd], (cat_cmd_type)e.type) != CAT_STATUS_BUSY)
                        viol("C13", "not-fifo", "dequeued cmd#%d (reported in progress with type %d: %s) but the oldest accepted event is id %ld = (cmd#%d, type %d)", cmd_index(pc), e.type, pc == W.cmd[e.cmd] ? "no" : "-", e.id, e.cmd, e.type);
                { int ot = e.type == CAT_CMD_TYPE_READ ? CAT_CMD_TYPE_TEST : CAT_CMD_TYPE_READ; bool other_waiting = false; for (int i = 0; i < rcount; i++) if (ring[i].cmd == e.cmd && ring[i].type == ot) other_waiting = true;
                  if (!other_waiting && cat_is_unsolicited_event_buffered(W.at, W.cmd[e.cmd], (cat_cmd_type)ot) == CAT_STATUS_BUSY)
                        viol("C13", "not-fifo", "the event just dequeued (id %ld, cmd#%d, type %d) is reported in progress with the other type %d", e.id, e.cmd, e.type, ot); }
                if (e.id <= last_started) viol("C13", "order", "event id %ld started after id %ld", e.id, last_started);
                last_started = e.id; cur = e; inprog = true; saw_action_for_cur = false; cur_terminal_returned = false; cur_var_failed = false; saw_output_for_cur = false; script_left = (int)pr_n(&HP, 3);
                CNT("events_dequeued");
        } else if (code == 4) {
                if (inprog) {
                        inprog = false; processed++;
                        if (saw_action_for_cur && !saw_output_for_cur && !cur_var_failed && cur.cmd == 0) {      /* +AUTO has no handlers: when no variable callback failed and the text fits, its line is offered to the output */
                                char t[200]; int n = cur.type == CAT_CMD_TYPE_READ ? ref_fmt_read(W.cmd[0], t, sizeof t) : ref_fmt_test(W.cmd[0], "\r\n", t, sizeof t);
                                if (n >= 0 && (size_t)n + 1 <= W.capU) viol("C13", "event-dropped", "accepted event id %ld of \"+AUTO\" (type %d) read its variable and then finished without offering a byte of its line \"%s\"", cur.id, cur.type, t);
                        }
                        if (!saw_action_for_cur) {
                                failed_fast++; CNT("events_failed_at_once");
                                /* "processed" means something: an event of +AUTO (a variable, no handlers, text that fits) prints its line, an event of +H / +H2 reaches their handler - whatever the flags of those commands say about command lines */
                                char t[200]; int n = cur.type == CAT_CMD_TYPE_READ ? ref_fmt_read(W.cmd[cur.cmd], t, sizeof t) : ref_fmt_test(W.cmd[cur.cmd], "\r\n", t, sizeof t);
                                if ((cur.cmd == 0 || cur.cmd == 1 || cur.cmd == 4) && n >= 0 && (size_t)n + 1 <= W.capU) viol("C13", "event-dropped", "accepted event id %ld (cmd#%d \"%s\", type %d) was taken from the queue and finished without a callback or an output byte", cur.id, cur.cmd, W.cmd[cur.cmd]->name, cur.type);
                        }
                        CNT("events_finished");
                }
        }
}
static cat_return_state policy(struct hcall *h)
{
        if (h->fsm == FSM_A) {
                if (h->kind == K_RUN && h->ci == 5) { if (pr_pct(&HP, 50)) { hold_active = true; return CAT_RETURN_STATE_HOLD; } }
                /* a command that waits for its own notification: "AT+H?" asks again (NEXT) as long as a READ event of +H is pending - events are processed independently of command traffic, so this ends */
                if (h->kind == K_READ && h->ci == 4 && h2_then_hold) { h2_then_hold = false; hold_active = true; CNT("holds_entered_after_a_first_response_part"); return CAT_RETURN_STATE_HOLD; }      /* "AT+H2?": one part of the answer, then the command waits (hold) */
                if (h->kind == K_READ && h->ci == 4 && h->max > 8 && pr_pct(&HP, 30)) { memcpy(h->data, "part", 5); *h->psize = 4; h2_then_hold = true; return CAT_RETURN_STATE_DATA_NEXT; }
                if (h->kind == K_READ && h->ci == 4 && h->max > 4) { size_t L = h->max - 1 - pr_n(&HP, 3); memset(h->data, 'x', L); h->data[L] = 0; *h->psize = L; return CAT_RETURN_STATE_DATA_OK; }      /* "AT+H2?": a response that fills the command buffer (its flush cursor runs up to the end of the buffer) */
                if (h->kind == K_READ && h->ci == 1 && cat_is_unsolicited_event_buffered(W.at, h->cmd, CAT_CMD_TYPE_READ) == CAT_STATUS_BUSY) { CNT("command_polls_for_its_own_event"); return CAT_RETURN_STATE_NEXT; }
                return CAT_RETURN_STATE_DATA_OK;
        }
        saw_action_for_cur = true;
        if (!inprog || h->ci != cur.cmd) viol("C13", "handler-for-other-event", "event handler of cmd#%d ran while the event in progress is %s cmd#%d", h->ci, inprog ? "" : "none /", cur.cmd);
        else if ((h->kind == K_READ) != (cur.type == CAT_CMD_TYPE_READ)) viol("C13", "handler-kind", "handler kind %d for an event of type %d", h->kind, cur.type);
        if (cat_get_processed_command(W.at, CAT_FSM_TYPE_UNSOLICITED) != h->cmd) viol("C13", "processed-command-inside-handler", "cat_get_processed_command does not name the event whose handler is running");
        if (inprog && cat_is_unsolicited_event_buffered(W.at, h->cmd, (cat_cmd_type)cur.type) != CAT_STATUS_BUSY) viol("C13", "not-buffered-inside-handler", "event in progress reported as not buffered inside its own handler");
        if (inprog && cur_terminal_returned) viol("C13", "event-processed-twice", "the handler of event id %ld (cmd#%d) was invoked again after it had returned a terminal code", cur.id, cur.cmd);
        if (script_left > 0) { script_left--; return pr_pct(&HP, 50) ? CAT_RETURN_STATE_DATA_NEXT : CAT_RETURN_STATE_NEXT; }
        cur_terminal_returned = true;
        unsigned r = pr_n(&HP, 9);           /* every terminal code an event handler can return; HOLD is left out (unspecified cell, DESIGN 3.2) */
        if (r == 3 || r == 4) { hold_active = false; CNT("event_handlers_returning_hold_exit"); }      /* releases a held command, if any; a no-op otherwise */
        return r == 0 ? CAT_RETURN_STATE_OK : r == 1 ? CAT_RETURN_STATE_ERROR : r == 2 ? CAT_RETURN_STATE_PRINT_CMD_LIST_OK : r == 3 ? CAT_RETURN_STATE_HOLD_EXIT_OK :
               r == 4 ? CAT_RETURN_STATE_HOLD_EXIT_ERROR : r == 5 ? (cat_return_state)42 : CAT_RETURN_STATE_DATA_OK;
}
/* variable read callbacks of event commands fail now and then: the event ends there (nothing is printed for it), it is not started over */
static int vpolicy(int ci, int vi, int dir, size_t ws)
{
        (void)vi; (void)ws;
        if (PHASE != 1 || dir != 0) return 0;
        saw_action_for_cur = true;
        if (!inprog || ci != cur.cmd) viol("C13", "handler-for-other-event", "variable callback of cmd#%d ran in the event step while the event in progress is %s cmd#%d", ci, inprog ? "" : "none /", cur.cmd);
        if (inprog && cur_var_failed) viol("C13", "event-processed-twice", "a variable of event id %ld (cmd#%d) was read again after its read callback had failed (the event is being processed a second time)", cur.id, cur.cmd);
        if (pr_pct(&HP, 25)) { cur_var_failed = true; CNT("event_variable_reads_failing"); return pr_pct(&HP, 50) ? 1 : -3; }
        return 0;
}
static void on_write(bool isA, char c, bool ok) { (void)c; (void)ok; if (!isA) { saw_action_for_cur = true; saw_output_for_cur = true; if (!inprog) viol("C13", "output-without-event", "event producer offered output while no event is in progress"); } }

void chk_describe(FILE *f)
{
        w_describe(f);
        fprintf(f, "history of %ld operations (at operation %ld): accepted %ld, refused %ld, processed %ld, failed at once %ld; model: %d waiting, in progress %s (id %ld cmd#%d type %d)\n",
                nops, opn, accepted, refused, processed, failed_fast, rcount, inprog ? "yes" : "no", cur.id, cur.cmd, cur.type);
        io_describe(f);
}

static void check_queries(void)
{
        int c = (int)rn(NCMD);
        int t = chance(30) ? CAT_CMD_TYPE_NONE : chance(12) ? (chance(50) ? CAT_CMD_TYPE_RUN : CAT_CMD_TYPE_WRITE) : (chance(50) ? CAT_CMD_TYPE_READ : CAT_CMD_TYPE_TEST);      /* RUN / WRITE events do not exist: never pending */
        bool b = cat_is_unsolicited_event_buffered(W.at, W.cmd[c], (cat_cmd_type)t) == CAT_STATUS_BUSY;
        if (b != model_buffered(c, t)) viol("C13", b ? "buffered-but-not-pending" : "pending-but-not-buffered", "cat_is_unsolicited_event_buffered(cmd#%d, type %d) = %s, model says %s", c, t, b ? "BUSY" : "OK", model_buffered(c, t) ? "pending" : "not pending");
        const struct cat_command *pc = cat_get_processed_command(W.at, CAT_FSM_TYPE_UNSOLICITED);
        if (inprog ? pc != W.cmd[cur.cmd] : pc != NULL) viol("C13", "processed-command", "cat_get_processed_command(UNSOLICITED) = cmd#%d, model: %s cmd#%d", pc ? cmd_index(pc) : -1, inprog ? "in progress" : "none, last", cur.cmd);
        CNT("queries_compared");
}
static void do_trigger(void)
{
        int c = (int)rn(NCMD); int t = chance(50) ? CAT_CMD_TYPE_READ : CAT_CMD_TYPE_TEST;
        bool pred_full = cat_is_unsolicited_buffer_full(W.at) == CAT_STATUS_ERROR_BUFFER_FULL;
        if (pred_full != (rcount == QCAP)) viol("C13", "full-query-wrong", "cat_is_unsolicited_buffer_full = %d with %d of %d waiting", pred_full, rcount, QCAP);
        cat_status s = chance(60) ? cat_trigger_unsolicited_event(W.at, W.cmd[c], (cat_cmd_type)t) : t == CAT_CMD_TYPE_READ ? cat_trigger_unsolicited_read(W.at, W.cmd[c]) : cat_trigger_unsolicited_test(W.at, W.cmd[c]);
        ev_note("trigger cmd#%d type %d -> %d (model waiting %d)", c, t, (int)s, rcount);
        if (rcount < QCAP) {
                if (s != CAT_STATUS_OK) viol("C13", "refused-with-room", "trigger returned %d with %d of %d waiting", (int)s, rcount, QCAP);
                else { ring[rcount].cmd = c; ring[rcount].type = t; ring[rcount].id = next_id++; rcount++; accepted++; CNT("triggers_accepted"); }
        } else {
                if (s != CAT_STATUS_ERROR_BUFFER_FULL) { viol("C13", "accepted-when-full", "trigger returned %d with the queue full", (int)s); }
                refused++; CNT("triggers_refused");
        }
}

struct case_budget chk_budget(const char *tier)
{
        struct case_budget b = { 0, strcmp(tier, "thorough") == 0 ? 600000 : 25000 };
        return b;
}
void chk_run_case(uint64_t seed, long c, bool is_sweep)
{
        (void)c; (void)is_sweep;
        w_begin();
        struct cat_command *arr = w_group(NCMD, false);
        static uint8_t dummy;
        (void)dummy;
        arr[0].name = xstr("+AUTO"); { struct cat_variable *v = w_vars(&arr[0], 2); v[0].type = CAT_VAR_UINT_DEC; v[0].name = "X"; uint8_t *d = w_vdata(&v[0], 1); *d = 9; v[0].read = hv_read; v[1].type = chance(50) ? CAT_VAR_UINT_DEC : CAT_VAR_BUF_HEX; uint8_t *e = w_vdata(&v[1], v[1].type == CAT_VAR_BUF_HEX ? 3 : 1); e[0] = 4; }
        arr[1].name = xstr("+H"); arr[1].read = h_read; arr[1].test = h_test; { struct cat_variable *v = w_vars(&arr[1], 1); v->type = CAT_VAR_UINT_DEC; uint8_t *d = w_vdata(v, 2); d[0] = 1; v->read = hv_read; }
        if (chance(50)) { arr[2].description = xstr("a description that is far too long for any event buffer used here, whatever comes before it"); CNT("tables_whose_failing_command_has_an_overlong_description"); }      /* its TEST event fails after "+FAIL=" has been composed */
        arr[2].name = xstr("+FAIL");                                                      /* READ fails at once, TEST prints "+FAIL=" */
        arr[3].name = xstr("+LONGNAMETHATDOESNOTFITINTHEEVENTBUFFERATALL0123456789"); arr[3].read = h_read;   /* never fits */
        arr[4].name = xstr("+H2"); arr[4].read = h_read; arr[4].test = h_test; arr[4].only_test = chance(50);      /* test-only restricts the request forms of command lines; an event of either type is processed like any other */
        arr[5].name = xstr("+HOLD"); arr[5].run = h_run;
        arr[0].implicit_write = chance(30);                 /* flags that concern command lines only: an accepted event is processed all the same */
        arr[1].disable = chance(25); arr[4].disable = chance(25);
        bool shared = chance(50);
        w_buffers(shared ? 64 + rn(2) : 48, shared, 24 + rn(16));
        w_init((int)rn(2));
        pr_seed(&HP, seed ^ 0x13, (uint64_t)CUR_CASE);
        POLICY = policy; VPOLICY = vpolicy; ON_PHASE = on_phase; ON_WRITE = on_write;
        rcount = 0; inprog = false; next_id = 1; last_started = 0; processed = accepted = refused = failed_fast = 0; script_left = 0; hold_active = false; h2_then_hold = false; started_observed = 0;
        memset(&cur, 0, sizeof cur);
        nops = 50 + (long)rn(chance(20) ? 5000 : 600);
        unsigned p_trig = 20 + rn(50);
        sch_eager(&RS); p_write = 100;
        for (opn = 0; opn < nops && !case_failed(); opn++) {
                unsigned r = rn(100);
                if (r < p_trig) { if (chance(40)) check_queries(); do_trigger(); if (chance(30)) { int burst = (int)rn(QCAP + 3); for (int i = 0; i < burst; i++) do_trigger(); } }
                else if (r < p_trig + 10) check_queries();
                else if (r < p_trig + 14) { p_write = chance(50) ? 100 : chance(50) ? 0 : 30; if (p_write == 100) sch_eager(&WS); else sch_bern(&WS, p_write, rnd()); }
                else if (r < p_trig + 17 && INPOS >= INLEN) { in_reset(); in_puts(chance(35) ? "AT+H?\n" : chance(30) ? "AT+HOLD\r\n" : chance(30) ? "AT+H2?\n" : chance(50) ? "AT+AUTO=?\n" : "AT+H=000000000000000000000000000000000000000007\n"); }      /* the last one: the command machine's cursor moves far past the size of a small event buffer */
                else if (r < p_trig + 21 && r >= p_trig + 19 && p_write == 100) {
                        /* no further trigger, output always ready: the waiting events are processed within a bound, whatever the command machine is doing (idle, in the middle of a line, holding a command) */
                        long b = 4000 + 400L * QCAP, i = 0;
                        for (; i < b && (rcount != 0 || inprog) && !case_failed(); i++) svc();
                        if (case_failed()) return;
                        if (hold_active) CNT("bounded_drains_while_a_command_is_held"); else CNT("bounded_drains");
                        if (rcount != 0 || inprog) { viol("C13", "events-left", "%d accepted event(s) waiting / %d in progress are not processed within %ld service calls although the output accepts every byte and nothing new is triggered (command held: %s)", rcount, inprog, b, hold_active ? "yes" : "no"); return; }
                }
                else if (r < p_trig + 19 && hold_active) { if (cat_hold_exit(W.at, CAT_STATUS_OK) == CAT_STATUS_OK) hold_active = false; }
                else { int k = 1 + (int)rn(20); for (int i = 0; i < k; i++) { svc(); if (chance(10)) check_queries(); } }
        }
        if (case_failed()) return;
        sch_eager(&WS);
        (void)cat_hold_exit(W.at, CAT_STATUS_OK); hold_active = false;
        long guard = 0, bound = 20000 + 400L * QCAP;
        for (;;) {
                cat_status s = svc();
                if (hold_active) { (void)cat_hold_exit(W.at, CAT_STATUS_OK); hold_active = false; }
                if (s == CAT_STATUS_OK && INPOS >= INLEN) break;
                if (++guard > bound) {
                        if (rcount != 0 || inprog) viol("C13", "events-left", "%d accepted event(s) waiting / %d in progress are not processed although the output accepts every byte (%ld service calls)", rcount, inprog, bound);
                        else inconclusive("no quiescence within the bound (C15's subject)");
                        return;
                }
        }
        check_queries();
        if (rcount != 0 || inprog) viol("C13", "events-left", "%d event(s) waiting / %d in progress at quiescence", rcount, inprog);
        if (processed != accepted) viol("C13", "processed-not-accepted", "%ld events processed, %ld accepted", processed, accepted);
        CNTN("operations", nops);
        if (accepted > QCAP) { CNT("histories_with_wraparound"); uint64_t h = hash_u64((uint64_t)nops, 13); h = hash_u64((uint64_t)accepted, h); h = hash_u64((uint64_t)refused, h); h = hash_u64((uint64_t)failed_fast, h); nontrivial(hash_u64(QCAP, h)); }
        if (sample_wanted()) sample_printf("capacity %d: %ld operations, %ld triggers accepted (ring wrapped %ld times), %ld refused, %ld failed at once, all processed once in order", QCAP, nops, accepted, accepted / QCAP, refused, failed_fast);
}
int main(int argc, char **argv) { MY_PROP = "C13"; PROG_NAME = "chk_C13"; return verif_main(argc, argv); }
