/* C10 — handler return codes drive the response exactly as documented.
 * Oracle: a small interpreter of the documented return-code table (per handler kind and FSM) predicts the
 * sequence of output units (data units, command list, result code) and the number of handler invocations;
 * each invocation must be handed the freshly formatted text again (differential: same text as the first one). */
#include "common.h"
#include "refmodel.h"

const char *CHK_RULE = "one case = one scripted return-code sequence for one cell (handler kind x command/event FSM x with/without variables x payload-rewrite mode); sweep: all "
                       "631 sequences over 11 code values up to length 6 (pruned at the first terminal code) for each of 36 cells; overflow cells: READ of two variables on capacities around the point where the separator lands on the last byte, with and without a small event formatted next door; random: longer sequences, failing variable "
                       "callbacks at every (pass, index), random io schedules, a bystander event in 30% of the command cells; distinct by (cell, code sequence, failure position); every case is non-trivial";

static const int CODES[11] = { CAT_RETURN_STATE_NEXT, CAT_RETURN_STATE_DATA_NEXT, CAT_RETURN_STATE_ERROR, CAT_RETURN_STATE_DATA_OK, CAT_RETURN_STATE_OK, CAT_RETURN_STATE_HOLD,
                               CAT_RETURN_STATE_HOLD_EXIT_OK, CAT_RETURN_STATE_HOLD_EXIT_ERROR, CAT_RETURN_STATE_PRINT_CMD_LIST_OK, 99, -7 };
#define MAXS 48
static int script[MAXS], slen;
static int kind, fsm, nvars, rewrite, hold_status; static bool with_desc, crlf, tight;
static int vr_fail, vw_fail, vr_calls, vw_calls;
static int ninv; static char fresh0[256]; static bool have_fresh; static bool hold_pending; static int hold_delay;
static char descr[600];
static int TGT;      /* index of the command under test: 0, or 1 when a disabled command / a command of a disabled group comes first in the table */
/* overflow cells: a READ of two variables on a capacity around the point where the separator lands on the last byte of the buffer; with a small event in flight next door */
static int lead_disabled; static bool big_ubuf, qmark, tgt_disabled, spurious_release, wo_vars;
static bool ovf, conc_event; static int ovf_digits, ovf_delta, conc_units; static long conc_step; static bool conc_accepted;

/* observed units */
struct unit { char type; char text[400]; };     /* D data, L list (concatenated raw lines), C result code */
static struct unit got[64], want[64]; static int ngot, nwant;
static void on_unit(bool isA, bool raw, const char *text, size_t len, bool a, bool b)
{
        (void)len; (void)a; (void)b;
        if (conc_event && !isA && fsm == FSM_A) {      /* the bystander event: its line must come out whole, once */
                if (strcmp(text, "+O=5") != 0) viol("C10", "concurrent-event-corrupted", "the event formatted while the command response was produced came out as \"%.30s\" instead of \"+O=5\"", text);
                conc_units++; return;
        }
        if ((fsm == FSM_A) != isA) { viol("C10", "unit-from-wrong-producer", "unit \"%.30s\" emitted by producer %c", text, isA ? 'A' : 'U'); return; }
        if (ngot >= 63) return;
        if (raw) {
                if (ngot == 0 || got[ngot - 1].type != 'L') { got[ngot].type = 'L'; got[ngot].text[0] = 0; ngot++; }
                char *d = got[ngot - 1].text; size_t o = strlen(d);
                for (const char *p = text; *p && o < sizeof got[0].text - 1; p++) if (*p != '\r') d[o++] = *p;
                d[o] = 0;
                return;
        }
        bool code = isA && (strcmp(text, "OK") == 0 || strcmp(text, "ERROR") == 0);
        got[ngot].type = code ? 'C' : 'D';
        snprintf(got[ngot].text, sizeof got[0].text, "%s", text);
        ngot++;
}
static void expect(char type, const char *text) { if (nwant < 63) { want[nwant].type = type; snprintf(want[nwant].text, sizeof want[0].text, "%s", text); nwant++; } }

static cat_return_state policy(struct hcall *h)
{
        if (h->ci != TGT) return CAT_RETURN_STATE_OK;
        int k = ninv++;
        if (h->kind != kind || h->fsm != fsm) viol("C10", "wrong-handler", "handler kind %d on fsm %d invoked, expected kind %d on fsm %d", h->kind, h->fsm, kind, fsm);
        if (h->kind == K_READ || h->kind == K_TEST) {
                const char *d = (const char *)h->data;
                if (!have_fresh) { snprintf(fresh0, sizeof fresh0, "%s", d); have_fresh = true; }
                else if (strcmp(d, fresh0) != 0 || *h->psize != strlen(fresh0))
                        viol("C10", "stale-buffer", "invocation %d was handed \"%.40s\" (size %zu) instead of the freshly formatted \"%.40s\"", k, d, *h->psize, fresh0);
                bool mod = rewrite == 1 || (rewrite == 2 && (k & 1));
                if (mod) *h->psize = (size_t)snprintf((char *)h->data, h->max, "~%d", k);
                if (rewrite == 3 && (k % 3) != 1 && h->max > 0) { h->data[0] = 0; *h->psize = 0; }      /* the handler empties the text: an empty line is what the buffer holds, and it is emitted like any other */
        } else if (h->kind == K_WRITE) {
                const char *exp = qmark ? "?" : nvars == 2 ? "7,8" : "7";
                if (h->size != strlen(exp) || memcmp(h->data, exp, h->size) != 0 || h->args_num != (size_t)nvars)
                        viol("C10", "stale-buffer", "write handler invocation %d saw args \"%.*s\" args_num %zu", k, (int)h->size, (const char *)h->data, h->args_num);
        }
        int c = k < slen ? script[k] : CAT_RETURN_STATE_OK;
        if (spurious_release && h->fsm == FSM_A && !hold_pending && (c == CAT_RETURN_STATE_NEXT || c == CAT_RETURN_STATE_DATA_NEXT) && chance(40)) {
                /* a release request while the command is being processed but not held: refused, and without any effect on a hold that starts later */
                cat_status s = cat_hold_exit(W.at, chance(50) ? CAT_STATUS_OK : CAT_STATUS_ERROR);
                CNT("release_requests_from_a_handler_of_a_command_that_is_not_held");
                if (s != CAT_STATUS_ERROR_NOT_HOLD) viol("C14", "release-accepted-outside-hold", "cat_hold_exit called while the command is processed but not held returned %d", (int)s);
        }
        if (c == CAT_RETURN_STATE_HOLD) { hold_pending = true; hold_delay = spurious_release ? (int)rn(6) : 0; }
        return (cat_return_state)c;
}
static int vpolicy(int ci, int vi, int dir, size_t wsize)
{
        (void)ci; (void)vi; (void)wsize;
        if (dir == 0) return (vr_calls++ == vr_fail) ? 1 : 0;
        return (vw_calls++ == vw_fail) ? -1 : 0;
}

void chk_describe(FILE *f)
{
        w_describe(f);
        fprintf(f, "%s\n", descr);
        fprintf(f, "expected units:"); for (int i = 0; i < nwant; i++) { char b[500]; fmt_bytes(b, sizeof b, (uint8_t *)want[i].text, strlen(want[i].text)); fprintf(f, " %c\"%s\"", want[i].type, b); }
        fprintf(f, "\nobserved units:"); for (int i = 0; i < ngot; i++) { char b[500]; fmt_bytes(b, sizeof b, (uint8_t *)got[i].text, strlen(got[i].text)); fprintf(f, " %c\"%s\"", got[i].type, b); }
        fprintf(f, "\nhandler invocations observed: %d\n", ninv);
        io_describe(f);
}

static void run_cell(void)
{
        static const char *kn[] = { "run", "read", "write", "test" };
        w_begin();
        TGT = 0;
        if (lead_disabled) {      /* the table starts with a command nobody may see: disabled itself, or the only member of a disabled group */
                bool by_group = lead_disabled == 2;
                struct cat_command *z = w_group(1, by_group);
                z[0].name = xstr("+A"); z[0].run = h_run; z[0].read = h_read; z[0].disable = !by_group;
                TGT = 1;
        }
        struct cat_command *arr = w_group(2, false);
        struct cat_command *c = &arr[0];
        c->name = xstr("+C");
        if (kind == K_RUN) c->run = h_run; else if (kind == K_READ) c->read = h_read; else if (kind == K_WRITE) c->write = h_write; else c->test = h_test;
        if (with_desc) c->description = xstr("about C");
        qmark = qmark && kind == K_WRITE && nvars == 0;
        if (tgt_disabled && fsm == FSM_U) { c->disable = true; CNT("event_cells_on_a_disabled_command"); }      /* the disable flag hides a command from the input stream; an accepted event of it is processed like any other */
        struct cat_variable *v = w_vars(c, (size_t)nvars);
        for (int j = 0; j < nvars; j++) { v[j].type = CAT_VAR_UINT_DEC; v[j].name = j ? "Y" : "X"; uint8_t *d = w_vdata(&v[j], 1); *d = (uint8_t)(7 + j); v[j].read = hv_read; v[j].write = hv_write; if (wo_vars) { v[j].access = CAT_VAR_ACCESS_WRITE_ONLY; v[j].read = NULL; } }
        if (ovf) { uint32_t x = 1; for (int q = 1; q < ovf_digits; q++) x *= 10; uint8_t *d = w_vdata(&v[0], 4); memcpy(d, &x, 4); }      /* "+C=<ovf_digits digits>,8" */
        arr[1].name = xstr("+O"); arr[1].run = h_run;
        { struct cat_variable *o = w_vars(&arr[1], 1); o->type = CAT_VAR_UINT_DEC; uint8_t *d = w_vdata(o, 1); *d = 5; }
        bool shared = chance(50);
        size_t cap = 200;
        if (tight) {      /* the smallest capacity that still holds every text of this cell: each response line and each list line fits, with 0..2 bytes to spare */
                char t[300]; size_t need = 8, longest = 0; int n;
                W.capA = 4096;
                if ((n = ref_fmt_test(c, crlf ? "\r\n" : "\n", t, sizeof t)) > 0 && (size_t)n > need) need = (size_t)n;
                if ((n = ref_fmt_read(c, t, sizeof t)) > 0 && (size_t)n > need) need = (size_t)n;
                ref_fmt_list(t, sizeof t, crlf ? "\r\n" : "\n", &longest); if (longest > need) need = longest;
                if (need < 12) need = 12;                    /* room for the "~<k>" payloads */
                cap = need + rn(4);      /* + 0: the longest text of the cell is one byte too long (it exactly fills the buffer, no room for its terminator): ERROR, never a cut line */
        }
        if (ovf) { long k = 4 + ovf_digits + ovf_delta; cap = k < 6 ? 6 : (size_t)k; }      /* delta 0: "+C=<digits>" is capacity-1 characters long, the separator is the last byte */
        if (!shared && big_ubuf && fsm == FSM_U && !ovf) {      /* event cells: a command buffer that is smaller than the event texts, next to an event buffer that holds them */
                size_t small = 6 + rn(10); if (small < w_min_cap()) small = w_min_cap();
                w_buffers(small, false, cap + rn(40));
        } else w_buffers(shared ? cap * 2 + rn(2) : cap, shared, cap);
        w_init((int)rn(2));
        conc_units = 0; conc_accepted = false; conc_step = conc_event ? (long)rn(40) : -1;
        POLICY = policy; VPOLICY = vpolicy; ON_UNIT = on_unit;
        ninv = 0; have_fresh = false; hold_pending = false; vr_calls = vw_calls = 0; ngot = nwant = 0;

        /* ---------- reference interpreter of the documented table ---------- */
        const char *final = NULL; int einv = 0; bool list = false; int vr = 0;
        bool rt = kind == K_READ || kind == K_TEST;
        if (kind == K_WRITE && nvars > 0 && vw_fail >= 0 && vw_fail < nvars) final = "ERROR";
        if (!final && rt) {      /* an automatic text that does not fit its buffer: ERROR (nothing for an event), the handler is not asked */
                char t[700]; int n = kind == K_READ ? ref_fmt_read(c, t, sizeof t) : ref_fmt_test(c, (crlf && fsm == FSM_A) ? "\r\n" : "\n", t, sizeof t);      /* an event cell has no command line: the embedded newline is LF */
                size_t capf = fsm == FSM_A ? W.capA : W.capU;
                if (n < 0 || (size_t)n >= capf) { final = "ERROR"; CNT("automatic_texts_that_do_not_fit"); if ((size_t)n == capf || (size_t)n == capf + 1) CNT("automatic_texts_one_or_two_bytes_too_long"); }
        }
        while (!final) {
                if (kind == K_READ && nvars > 0 && !wo_vars) { bool failed = false; for (int j = 0; j < nvars; j++) if (vr++ == vr_fail) failed = true; if (failed) { final = "ERROR"; break; } }
                int k = einv++;
                int code = k < slen ? script[k] : CAT_RETURN_STATE_OK;
                char pay[64]; bool mod = rt && (rewrite == 1 || (rewrite == 2 && (k & 1)));
                if (mod) snprintf(pay, sizeof pay, "~%d", k); else strcpy(pay, "\x01" "fresh");
                if (rt && rewrite == 3 && (k % 3) != 1) pay[0] = 0;
                switch (code) {
                case CAT_RETURN_STATE_OK: final = "OK"; break;
                case CAT_RETURN_STATE_ERROR: final = "ERROR"; break;
                case CAT_RETURN_STATE_DATA_OK: if (rt) expect('D', pay); final = "OK"; break;
                case CAT_RETURN_STATE_DATA_NEXT: if (rt) expect('D', pay); break;
                case CAT_RETURN_STATE_NEXT: break;
                case CAT_RETURN_STATE_HOLD: final = hold_status ? "ERROR" : "OK"; break;                 /* the harness releases at once with that status */
                case CAT_RETURN_STATE_HOLD_EXIT_OK: final = rt ? "OK" : "ERROR"; break;
                case CAT_RETURN_STATE_HOLD_EXIT_ERROR: final = "ERROR"; break;
                case CAT_RETURN_STATE_PRINT_CMD_LIST_OK:
                        if (fsm == FSM_A && (kind == K_RUN || kind == K_TEST)) { list = true; final = "OK"; }
                        else if (fsm == FSM_U && kind == K_TEST) final = "OK";
                        else final = "ERROR";
                        break;
                default: final = "ERROR"; break;
                }
        }
        if (list) {      /* the list is flushed line by line: it stops with ERROR at the first line that does not fit the command buffer (with its terminator) */
                char l[400], e[400]; size_t o = 0; const char *p = l; bool all = true;
                ref_fmt_list(l, sizeof l, crlf ? "\r\n" : "\n", NULL);
                while (*p) {
                        const char *q = p; while (*q == '\r' || *q == '\n') q++;
                        q = strchr(q, '\n'); size_t n = (size_t)(q - p) + 1;
                        if (n + 1 > W.capA) { all = false; break; }
                        for (size_t i = 0; i < n; i++) if (p[i] != '\r') e[o++] = p[i];
                        p += n;
                }
                e[o] = 0;
                if (o) expect('L', e);
                if (!all) { final = "ERROR"; CNT("command_lists_cut_by_a_line_that_does_not_fit"); }
        }
        if (fsm == FSM_A) expect('C', final);

        /* ---------- run ---------- */
        in_reset();
        if (fsm == FSM_U) {
                cat_status s = cat_trigger_unsolicited_event(W.at, W.cmd[TGT], kind == K_READ ? CAT_CMD_TYPE_READ : CAT_CMD_TYPE_TEST);
                if (s != CAT_STATUS_OK) { inconclusive("trigger refused on an empty queue"); return; }
        } else {
                static const char *l[4] = { "AT+C", "AT+C?", "AT+C=", "AT+C=?" };
                in_puts(l[kind]); if (kind == K_WRITE) in_puts(qmark ? "?" : nvars == 2 ? "7,8" : "7"); in_puts(crlf ? "\r\n" : "\n");      /* "AT+C=?" on a command with a write handler only (with or without a description) is a WRITE of "?" */
        }
        size_t o = 0; o += (size_t)snprintf(descr + o, sizeof descr - o, "cell: %s handler on the %s FSM, %d variable(s), rewrite mode %d, desc %d; var read fails at call %d, var write at call %d;%s%s code script:",
                                            kn[kind], fsm ? "event" : "command", nvars, rewrite, with_desc, vr_fail, vw_fail, ovf ? " capacity around the separator-on-last-byte point;" : "", conc_event ? " a READ event of +O is triggered meanwhile;" : "");
        for (int i = 0; i < slen && o + 8 < sizeof descr; i++) o += (size_t)snprintf(descr + o, sizeof descr - o, " %d", script[i]);
        long bound = 4000 + 400 * (long)(slen + 2), i; bool quiet = false;
        for (i = 0; i < bound; i++) {
                if (i == conc_step && fsm == FSM_A) conc_accepted = cat_trigger_unsolicited_event(W.at, W.cmd[TGT + 1], CAT_CMD_TYPE_READ) == CAT_STATUS_OK;
                cat_status s = svc();
                if (hold_pending && hold_delay > 0) { hold_delay--; CNT("service_calls_made_while_the_cell_is_held"); continue; }      /* the release comes a few calls later: nothing may end the hold before */
                if (hold_pending) { hold_pending = false; if (cat_hold_exit(W.at, hold_status ? CAT_STATUS_ERROR : CAT_STATUS_OK) != CAT_STATUS_OK) viol("C14", "release-refused", "cat_hold_exit refused right after HOLD"); }
                if (s == CAT_STATUS_OK && INPOS >= INLEN && i >= conc_step) { quiet = true; break; }
        }
        if (!quiet) { inconclusive("no quiescence (C15's subject)"); return; }
        if (conc_event && fsm == FSM_A) { CNT("sequences_with_a_bystander_event"); if (conc_accepted && conc_units != 1) viol("C10", "concurrent-event-corrupted", "the bystander event was emitted %d times", conc_units); }
        if (ovf) CNT("overflow_cells");

        /* ---------- verdict ---------- */
        for (int q = 0; q < nwant; q++) if (want[q].type == 'D' && want[q].text[0] == 1) snprintf(want[q].text, sizeof want[0].text, "%s", have_fresh ? fresh0 : "?");
        if (ninv != einv) viol("C10", ninv > einv ? "too-many-invocations" : "too-few-invocations", "handler invoked %d times, the code sequence asks for %d", ninv, einv);
        bool same = ngot == nwant;
        for (int q = 0; same && q < ngot; q++) if (got[q].type != want[q].type || strcmp(got[q].text, want[q].text) != 0) same = false;
        if (!same) {
                const char *key = "units-differ";
                if (ngot && nwant && got[ngot - 1].type == 'C' && want[nwant - 1].type == 'C' && strcmp(got[ngot - 1].text, want[nwant - 1].text) != 0) key = "wrong-result-code";
                else if (ngot > nwant) key = "extra-unit"; else if (ngot < nwant) key = "missing-unit";
                viol("C10", key, "observed %d units, expected %d (see replay file for both lists)", ngot, nwant);
        }
        uint64_t h = hash_u64((uint64_t)(kind * 1000 + fsm * 500 + nvars * 100 + rewrite * 10 + with_desc), 12);
        for (int q = 0; q < slen; q++) h = hash_u64((uint64_t)script[q], h);
        h = hash_u64((uint64_t)(vr_fail * 64 + vw_fail), h);
        nontrivial(h);
        DSET("code_sequences", hash_bytes(script, sizeof(int) * (size_t)slen, (uint64_t)slen));
        DSET("cells", (uint64_t)(kind * 1000 + fsm * 500 + nvars * 100 + rewrite * 10));
        CNT("sequences"); CNTN("handler_invocations_checked", ninv); if (list) CNT("command_lists"); if (tight) CNT("sequences_at_minimal_capacity"); if (tight && list) CNT("command_lists_at_minimal_capacity");
        if (final && strcmp(final, "ERROR") == 0) CNT("final_error"); else CNT("final_ok");
        if (sample_wanted()) { char sb[200]; size_t so = 0; for (int q = 0; q < slen && so < 180; q++) so += (size_t)snprintf(sb + so, sizeof sb - so, "%d,", script[q]); sb[so] = 0;
                sample_printf("%s handler on %s FSM, %d var(s), codes [%s] -> %d invocation(s), %d unit(s), final %s", kn[kind], fsm ? "event" : "command", nvars, sb, ninv, ngot, fsm ? "(none: event)" : final); }
}

/* 631 sequences: k non-terminal codes (2^k choices) followed by one of 9 terminal codes, k = 0..5; plus 64 all-non-terminal sequences of length 6 */
static void decode_seq(long s)
{
        slen = 0;
        for (int k = 0; k <= 5; k++) {
                long n = (1L << k) * 9;
                if (s < n) { long t = s % 9, bits = s / 9; for (int i = 0; i < k; i++) script[slen++] = CODES[(bits >> i) & 1]; script[slen++] = CODES[2 + t]; return; }
                s -= n;
        }
        for (int i = 0; i < 6; i++) script[slen++] = CODES[(s >> i) & 1];
}
static const int CELL_KIND[6] = { K_RUN, K_READ, K_WRITE, K_TEST, K_READ, K_TEST };
static const int CELL_FSM[6] = { FSM_A, FSM_A, FSM_A, FSM_A, FSM_U, FSM_U };
#define N_SWEEP_A (36L * 631)
#define N_SWEEP_B (10L * 6 * 2 * 2 * 4)
#define N_SWEEP (N_SWEEP_A + N_SWEEP_B)

struct case_budget chk_budget(const char *tier)
{
        struct case_budget b = { N_SWEEP, strcmp(tier, "thorough") == 0 ? 15000000 : 250000 };
        return b;
}
void chk_run_case(uint64_t seed, long c, bool is_sweep)
{
        (void)seed;
        vr_fail = vw_fail = -1; hold_status = 0; descr[0] = 0; ovf = false; conc_event = false; lead_disabled = 0; big_ubuf = false; qmark = false; tgt_disabled = false; spurious_release = false; wo_vars = false;
        if (is_sweep && c >= N_SWEEP_A) {      /* overflow cells: digits 1..10 x delta -2..+3 x FSM x code x bystander */
                long k = c - N_SWEEP_A;
                ovf = true; ovf_digits = 1 + (int)(k % 10); k /= 10; ovf_delta = (int)(k % 6) - 2; k /= 6; fsm = (int)(k % 2); k /= 2; conc_event = (k % 2) && fsm == FSM_A; k /= 2;
                kind = K_READ; nvars = 2; rewrite = 0; with_desc = false; crlf = (k & 1); tight = false; slen = 1; script[0] = k & 2 ? CAT_RETURN_STATE_DATA_OK : CAT_RETURN_STATE_OK;
                sch_eager(&RS); if (conc_event) sch_bern(&WS, 60, (uint64_t)c); else sch_eager(&WS);
                run_cell();
                return;
        }
        if (is_sweep) {
                long cell = c / 631; decode_seq(c % 631);
                int kf = (int)(cell % 6); kind = CELL_KIND[kf]; fsm = CELL_FSM[kf]; cell /= 6;
                nvars = (int)(cell % 2); rewrite = (int)(cell / 2);
                with_desc = (c & 1); crlf = (c & 2) != 0; hold_status = (int)((c >> 2) & 1); tight = ((c >> 3) & 3) == 0; lead_disabled = (int)((c >> 5) % 3); big_ubuf = ((c >> 4) & 1) != 0; qmark = ((c >> 1) & 3) == 1; tgt_disabled = ((c >> 2) & 3) == 2;
                sch_eager(&RS); sch_eager(&WS);
        } else {
                int kf = (int)rn(6); kind = CELL_KIND[kf]; fsm = CELL_FSM[kf];
                nvars = (int)rn(3); rewrite = (int)rn(4); with_desc = chance(40); crlf = chance(30); hold_status = (int)rn(2); tight = chance(35);
                slen = chance(70) ? (int)rn(9) : (int)rn(MAXS);
                for (int i = 0; i < slen; i++) script[i] = (i + 1 < slen || chance(50)) ? CODES[rn(2)] : CODES[2 + rn(9)];
                if (chance(15) && slen) script[rn((unsigned)slen)] = CODES[2 + rn(9)];
                if (chance(35)) vr_fail = (int)rn(12);
                if (chance(25)) vw_fail = (int)rn(3);
                if (chance(50)) { sch_bern(&RS, 30 + rn(70), rnd()); sch_bern(&WS, 30 + rn(70), rnd()); }
                if (fsm == FSM_A && chance(30)) conc_event = true;
                if (chance(25)) lead_disabled = 1 + (int)rn(2);
                big_ubuf = chance(50); qmark = chance(30); tgt_disabled = chance(25); spurious_release = chance(25);
                wo_vars = kind == K_READ && nvars > 0 && chance(15);      /* a read handler on a command whose variables are all write-only: every pass is handed the same text (the bare prefix) */
                if (wo_vars) CNT("read_cells_on_write_only_variables");
                if (chance(12)) { wo_vars = false; ovf = true; kind = K_READ; nvars = 2; ovf_digits = 1 + (int)rn(10); ovf_delta = (int)rn(6) - 2; tight = false; }
        }
        if (!is_sweep) for (int i = 0; i < slen; i++) if (script[i] == 99 || script[i] == -7) {      /* values outside the enumeration: near it, congruent to a member modulo 2^8 / 2^16, the extremes of int */
                static const int wild[] = { 99, -7, 9, 10, -2, 127, 128, 255, -128, -129, 1000, 65535, 65536, -65536, 0x7fffffff, (int)0x80000000u };
                unsigned r = rn(24);
                script[i] = r < 16 ? wild[r] : r < 20 ? 256 * (1 + (int)rn(3)) + (int)rn(10) - 1 : r < 22 ? -256 + (int)rn(10) - 1 : 65536 + (int)rn(10) - 1;
                CNT("return_values_outside_the_enumeration");
        }
        if (fsm == FSM_U) for (int i = 0; i < slen; i++) if (script[i] == CAT_RETURN_STATE_HOLD) script[i] = CAT_RETURN_STATE_OK;   /* HOLD from an event handler is an unspecified cell (DESIGN 3.2) */
        run_cell();
}
int main(int argc, char **argv) { MY_PROP = "C10"; PROG_NAME = "chk_C10"; return verif_main(argc, argv); }
