/* C17 — with a real mutex, triggers from other threads are race-free and not lost.
 * One service thread (command traffic, back-pressure, holds) and P producer threads calling the locking API in
 * random order with randomised yields between calls.  Run under ThreadSanitizer (and helgrind in the thorough
 * tier).  Per producer: delivered == accepted; nothing refused is delivered.  Harness counters are C11 atomics;
 * the hand-over counter lives under the cAT mutex itself. */
#define _GNU_SOURCE
#include <stdio.h>
#include <stdlib.h>
#include <string.h>
#include <stdint.h>
#include <stdbool.h>
#include <stdatomic.h>
#include <pthread.h>
#include <sched.h>
#include <time.h>
#include "cat.h"

static int phase;      /* written and read by the service thread only (the hook runs inside cat_service) */
void cat_verif_phase(struct cat_object *self, int code) { (void)self; if (code <= 2) phase = code; }

#define MAXP 8
static struct cat_object at;
static pthread_mutex_t mtx;      /* error-checking: an unlock by a thread that does not own it is reported instead of silently breaking mutual exclusion */
static pthread_t last_owner; static bool have_owner; static long handovers, lock_calls;      /* protected by mtx */
static atomic_long contended;
static int lock_may_fail;      /* --timedlock: lock() gives up under contention and reports failure, as an RTOS "take with timeout" would */
static atomic_long lock_failures;
static int mx_lock(void)
{
        if (pthread_mutex_trylock(&mtx) != 0) {
                atomic_fetch_add(&contended, 1);
                if (lock_may_fail) {
                        int got = 0;
                        for (int i = 0; i < 3 && !got; i++) { sched_yield(); got = pthread_mutex_trylock(&mtx) == 0; }
                        if (!got) { atomic_fetch_add(&lock_failures, 1); return 1; }
                } else pthread_mutex_lock(&mtx);
        }
        pthread_t me = pthread_self();
        if (have_owner && !pthread_equal(me, last_owner)) handovers++;
        last_owner = me; have_owner = true; lock_calls++;
        return 0;
}
static atomic_long unlock_errors;
static int mx_unlock(void) { if (pthread_mutex_unlock(&mtx) != 0) { atomic_fetch_add(&unlock_errors, 1); return 1; } return 0; }
static struct cat_mutex_interface mutex = { .lock = mx_lock, .unlock = mx_unlock };

static atomic_long accepted[MAXP], refused[MAXP], delivered[MAXP];
static atomic_int producers_running;
static atomic_long hold_exits_ok, hold_exits_nothold, queries, odd_status;
/* service-thread-only state */
static uint64_t rs; static uint64_t srnd(void) { rs ^= rs >> 12; rs ^= rs << 25; rs ^= rs >> 27; return rs * 2685821657736338717ULL; }
static uint8_t input[1 << 16]; static size_t inlen, inpos; static long out_bytes, write_refusals; static unsigned p_write = 70;
static long input_batches, holds_entered, lockfree_queries_in_handlers, bad_lockfree, event_handler_chains;
/* what the host sees is one byte stream: the producer (event machine in hook phase 1, command machine in phase 2) may change only behind a newline */
static long wire_torn; static int last_producer; static char last_byte = '\n';
/* every line of the event machine is the text of an event of one of the producer commands ("+P<n>=..."): never empty, never something else */
static long event_lines, event_lines_bad; static int ev_st; static char ev_txt[8]; static int ev_len;
static void event_byte(char c)
{
        if (c == '\r') return;
        if (c != '\n') { if (ev_len < (int)sizeof ev_txt) ev_txt[ev_len] = c; ev_len++; ev_st = 1; return; }
        if (ev_st == 0 && ev_len == 0) { ev_st = 1; return; }      /* leading newline */
        event_lines++;
        if (ev_len < 4 || ev_txt[0] != '+' || ev_txt[1] != 'P' || ev_txt[2] < '0' || ev_txt[2] > '7' || ev_txt[3] != '=') event_lines_bad++;
        ev_st = 0; ev_len = 0;
}
static int io_write(char c)
{
        if (srnd() % 100 >= p_write) { write_refusals++; return 0; }
        if (phase == 1) event_byte(c);
        if (last_producer && phase != last_producer && last_byte != '\n') wire_torn++;
        last_producer = phase; last_byte = c;
        out_bytes++; return 1;
}
static int io_read(char *c) { if (inpos >= inlen || srnd() % 100 < 20) return 0; *c = (char)input[inpos++]; return 1; }
static struct cat_io_interface io = { .write = io_write, .read = io_read };

static struct cat_command cmds[MAXP + 4]; static char names[MAXP + 4][8]; static uint8_t vdata[MAXP + 4]; static struct cat_variable vars[MAXP + 4]; static uint8_t longdata[16];
static cat_return_state ev_handler(const struct cat_command *cmd, uint8_t *d, size_t *n, size_t m)
{
        (void)d; (void)n; (void)m;
        int p = (int)(cmd - cmds);
        if (p < MAXP && phase == 1) {
                /* an event is delivered when its handler chain ends: the handler may ask to be called again (NEXT / DATA_NEXT, at most three times per event) before
                 * it returns a terminal code; every terminal code an event handler can return is used, also the two that release a held command */
                static int chain;
                if (cat_get_processed_command(&at, CAT_FSM_TYPE_UNSOLICITED) != cmd) bad_lockfree++;      /* the two documented lock-free queries, from the service thread only */
                if (cat_is_unsolicited_event_buffered(&at, cmd, CAT_CMD_TYPE_NONE) != CAT_STATUS_BUSY) bad_lockfree++;
                lockfree_queries_in_handlers += 2;
                unsigned r = (unsigned)(srnd() % 16);
                if (r < 5 && chain < 3) { chain++; event_handler_chains++; return (r & 1) ? CAT_RETURN_STATE_NEXT : CAT_RETURN_STATE_DATA_NEXT; }
                chain = 0;
                atomic_fetch_add(&delivered[p], 1);
                if (r == 15) return CAT_RETURN_STATE_HOLD_EXIT_OK;
                if (r == 14) return CAT_RETURN_STATE_HOLD_EXIT_ERROR;
                if (r == 13) return CAT_RETURN_STATE_ERROR;
        }
        return (srnd() & 1) ? CAT_RETURN_STATE_DATA_OK : CAT_RETURN_STATE_OK;
}
/* variable read callback of the event commands: fails now and then; a READ event whose variable cannot be read ends there (it counts as delivered: it was consumed, once) */
static long var_read_failures;
static struct cat_variable v3[2], v6[2];
static int var_read(const struct cat_variable *v)
{
        int p = v == &v3[0] ? 3 : v == &v6[0] ? 6 : (int)(v - vars);
        bool fail = srnd() % 8 == 0;
        if (fail) var_read_failures++;
        if (phase == 1 && p < MAXP && (fail || cmds[p].read == NULL)) atomic_fetch_add(&delivered[p], 1);      /* a command without handlers: its READ event is delivered when its variable is read */
        return fail ? 1 : 0;
}
static cat_return_state help_run(const struct cat_command *cmd) { (void)cmd; return CAT_RETURN_STATE_PRINT_CMD_LIST_OK; }
static cat_return_state hold_run(const struct cat_command *cmd) { (void)cmd; if (srnd() % 3 == 0) { holds_entered++; return CAT_RETURN_STATE_HOLD; } return CAT_RETURN_STATE_OK; }
static cat_return_state wr_handler(const struct cat_command *cmd, const uint8_t *d, size_t n, size_t a) { (void)cmd; (void)d; (void)a; if (n > 40 && srnd() % 3 == 0) { holds_entered++; return CAT_RETURN_STATE_HOLD; } return CAT_RETURN_STATE_OK; }      /* a held command with a long argument text: the command machine's cursor stays far into its buffer for the whole hold */

struct parg { int id; uint64_t seed; long triggers; };
static void *producer(void *vp)
{
        struct parg *pa = vp; uint64_t s = pa->seed; long left = pa->triggers;
#define PR() (s ^= s >> 12, s ^= s << 25, s ^= s >> 27, s * 2685821657736338717ULL)
        while (left > 0) {
                unsigned r = (unsigned)(PR() % 100);
                if (r < 60) {
                        cat_status st; unsigned k = (unsigned)(PR() % 3);
                        if (pa->id == 2 || pa->id == 3 || pa->id == 6) k = 1;      /* READ events only: the TEST text of a two-variable command does not fit the small event buffer of the odd seeds */
                        if (k == 0) st = cat_trigger_unsolicited_event(&at, &cmds[pa->id], (PR() & 1) ? CAT_CMD_TYPE_READ : CAT_CMD_TYPE_TEST);
                        else if (k == 1) st = cat_trigger_unsolicited_read(&at, &cmds[pa->id]);
                        else st = cat_trigger_unsolicited_test(&at, &cmds[pa->id]);
                        if (st == CAT_STATUS_OK) atomic_fetch_add(&accepted[pa->id], 1); else if (st == CAT_STATUS_ERROR_BUFFER_FULL) atomic_fetch_add(&refused[pa->id], 1);
                        else if (st != CAT_STATUS_ERROR_MUTEX_LOCK) atomic_fetch_add(&odd_status, 1);      /* a failed lock must be reported as such and nothing may have been queued */
                        left--;
                } else if (r < 70) { (void)cat_is_unsolicited_buffer_full(&at); atomic_fetch_add(&queries, 1); }
                else if (r < 80) { (void)cat_is_busy(&at); atomic_fetch_add(&queries, 1); }
                else if (r < 90) { (void)cat_is_hold(&at); atomic_fetch_add(&queries, 1); }
                else { cat_status st = cat_hold_exit(&at, (PR() & 1) ? CAT_STATUS_OK : CAT_STATUS_ERROR); if (st == CAT_STATUS_OK) atomic_fetch_add(&hold_exits_ok, 1); else atomic_fetch_add(&hold_exits_nothold, 1); }
                unsigned y = (unsigned)(PR() % 16);         /* randomised delays BETWEEN API calls, never inside the lock */
                if (y < 6) sched_yield(); else if (y == 6) { struct timespec ts = { 0, (long)(PR() % 20000) }; nanosleep(&ts, NULL); }
        }
        atomic_fetch_sub(&producers_running, 1);
        return NULL;
}

/* a bystander that takes the parser mutex like any API function would and looks at the parser object twice: nobody may change it meanwhile */
static atomic_long frozen_checks, frozen_violations;
static void *bystander(void *vp)
{
        (void)vp; struct cat_object snap;
        while (atomic_load(&producers_running) > 0) {
                if (mx_lock() == 0) {
                        memcpy(&snap, &at, sizeof snap);
                        for (int i = 0; i < 3; i++) sched_yield();
                        if (memcmp(&snap, &at, sizeof snap) != 0) atomic_fetch_add(&frozen_violations, 1);
                        atomic_fetch_add(&frozen_checks, 1);
                        mx_unlock();
                }
                struct timespec ts = { 0, 30000 }; nanosleep(&ts, NULL);
        }
        return NULL;
}
int main(int argc, char **argv)
{
        uint64_t seed = 1; int P = 4; long T = 2000;
        for (int i = 1; i + 1 < argc; i += 2) { if (!strcmp(argv[i], "--seed")) seed = strtoull(argv[i + 1], 0, 10); else if (!strcmp(argv[i], "--producers")) P = atoi(argv[i + 1]); else if (!strcmp(argv[i], "--triggers")) T = atol(argv[i + 1]); else if (!strcmp(argv[i], "--timedlock")) lock_may_fail = atoi(argv[i + 1]); }
        if (P < 1 || P > MAXP) return 2;
        rs = seed * 0x9E3779B97F4A7C15ULL + 99;
        for (int p = 0; p < MAXP; p++) {
                snprintf(names[p], sizeof names[p], "+P%d", p);
                cmds[p].name = names[p]; cmds[p].read = ev_handler; cmds[p].test = ev_handler;
                vars[p].type = CAT_VAR_UINT_DEC; vars[p].data = &vdata[p]; vars[p].data_size = 1; vars[p].read = var_read; cmds[p].var = &vars[p]; cmds[p].var_num = 1;
        }
        /* two of the event commands carry a second variable of a buffer type (their READ text still fits the smallest event buffer used) */
        static char str3[13] = "abcdefghijkl"; static uint8_t hex6[4] = { 1, 2, 3, 4 };
        v3[0] = vars[3]; v3[1].type = CAT_VAR_BUF_STRING; v3[1].data = str3; v3[1].data_size = sizeof str3; cmds[3].var = v3; cmds[3].var_num = 2;
        v6[0] = vars[6]; v6[1].type = CAT_VAR_BUF_HEX; v6[1].data = hex6; v6[1].data_size = sizeof hex6; cmds[6].var = v6; cmds[6].var_num = 2;
        /* flags that concern command lines only: events of these commands are accepted and delivered like any other */
        cmds[1].disable = true; cmds[5].disable = true;
        cmds[2].read = NULL; cmds[2].test = NULL; cmds[2].implicit_write = true;      /* producer 2 raises READ events only (see producer()) */
        cmds[MAXP].name = "+HOLD"; cmds[MAXP].run = hold_run;
        cmds[MAXP + 1].name = "+W"; cmds[MAXP + 1].write = wr_handler;      /* its arguments are decoded into a string variable: while the command is held the command machine's cursor stays behind the last argument */
        { static char wstr[120]; vars[MAXP + 1].type = CAT_VAR_BUF_STRING; vars[MAXP + 1].data = wstr; vars[MAXP + 1].data_size = sizeof wstr; cmds[MAXP + 1].var = &vars[MAXP + 1]; cmds[MAXP + 1].var_num = 1; }
        cmds[MAXP + 2].name = "+HELP"; cmds[MAXP + 2].run = help_run;      /* the command list walks the whole table, one step per service call */
        cmds[MAXP + 3].name = "+LONG"; vars[MAXP + 3].type = CAT_VAR_BUF_HEX; vars[MAXP + 3].data = longdata; vars[MAXP + 3].data_size = sizeof longdata; cmds[MAXP + 3].var = &vars[MAXP + 3]; cmds[MAXP + 3].var_num = 1;      /* a response longer than the small event buffer of the odd seeds */
        static struct cat_command_group g = { .cmd = cmds, .cmd_num = MAXP + 4 }; static struct cat_command_group *gp[] = { &g };
        static uint8_t buf[128], ubuf[24]; static struct cat_descriptor desc = { .cmd_group = gp, .cmd_group_num = 1, .buf = buf, .buf_size = sizeof buf };
        if (seed & 1) { desc.unsolicited_buf = ubuf; desc.unsolicited_buf_size = sizeof ubuf; }      /* odd seeds: a separate event buffer, much smaller than the command buffer (every event text of this table still fits) */
        /* command traffic for the service thread */
        static const char *lines[] = { "AT+W=\"01234567890123456789012345678901234567890123456789012345\"\n", "AT+W=\"0123456789012345678901234567890123456789012345678901234567890123456789012345678901234567890123456789012345678901234567\"\r\n", "AT+HOLD\n", "AT+W=\"abc\"\r\n", "AT+P0?\n", "AT+P1=?\n", "AT\n", "AT+NOPE\n", "AT+P2=5\n", "AT+HELP\n", "AT+LONG?\r\n", "AT+LONG=00112233445566778899aabbccddeeff\n" };
#define GEN_INPUT() do { long nl = 40 + (long)(srnd() % 200); inlen = inpos = 0; for (long l = 0; l < nl; l++) { const char *s = lines[srnd() % 12]; size_t n = strlen(s); if (inlen + n < sizeof input) { memcpy(input + inlen, s, n); inlen += n; } } input_batches++; } while (0)
        GEN_INPUT();
        { pthread_mutexattr_t ma; pthread_mutexattr_init(&ma); pthread_mutexattr_settype(&ma, PTHREAD_MUTEX_ERRORCHECK); pthread_mutex_init(&mtx, &ma); }
        cat_init(&at, &desc, &io, &mutex);
        pthread_t th[MAXP], by; struct parg pa[MAXP];
        atomic_store(&producers_running, P);
        pthread_create(&by, NULL, bystander, NULL);
        for (int p = 0; p < P; p++) { pa[p].id = p; pa[p].seed = seed * 1000003ULL + (uint64_t)p * 7919ULL + 1; pa[p].triggers = T; pthread_create(&th[p], NULL, producer, &pa[p]); }
        long services = 0, quiet = 0; struct timespec t0; clock_gettime(CLOCK_MONOTONIC, &t0);
        for (;;) {
                cat_status s = cat_service(&at);
                if (s == CAT_STATUS_ERROR_MUTEX_LOCK) { sched_yield(); continue; }      /* the call did nothing: try again */
                services++;
                if ((services & 1023) == 0) p_write = (srnd() % 4 == 0) ? 100 : 40 + (unsigned)(srnd() % 60);
                if (atomic_load(&producers_running) == 0) {
                        p_write = 100;
                        (void)cat_hold_exit(&at, CAT_STATUS_OK);                       /* finish any hold nobody released */
                        if (s == CAT_STATUS_OK && inpos >= inlen) { if (++quiet > 3) break; } else quiet = 0;
                } else {
                        if ((services & 63) == 0) sched_yield();
                        if (inpos >= inlen && s == CAT_STATUS_OK) GEN_INPUT();      /* command traffic for as long as the producers are at work */
                }
                if ((services & 0xfffff) == 0) { struct timespec t1; clock_gettime(CLOCK_MONOTONIC, &t1); if (t1.tv_sec - t0.tv_sec > 240) { fprintf(stderr, "WATCHDOG\n"); return 3; } }
        }
        for (int p = 0; p < P; p++) pthread_join(th[p], NULL);
        pthread_join(by, NULL);
        long acc = 0, ref = 0, del = 0; int bad = 0;
        for (int p = 0; p < P; p++) { long a = atomic_load(&accepted[p]), d = atomic_load(&delivered[p]); acc += a; del += d; ref += atomic_load(&refused[p]); if (a != d) bad++; }
        printf("{\"producers\":%d,\"cap\":%d,\"seed\":%llu,\"triggers_per_producer\":%ld,\"accepted\":%ld,\"refused_full\":%ld,\"delivered\":%ld,\"producers_with_mismatch\":%d,"
               "\"lock_calls\":%ld,\"handovers\":%ld,\"contended_locks\":%ld,\"service_calls\":%ld,\"holds_entered\":%ld,\"hold_exits_ok\":%ld,\"hold_exits_not_hold\":%ld,\"queries\":%ld,"
               "\"write_refusals\":%ld,\"lockfree_queries_in_handlers\":%ld,\"bad_lockfree\":%ld,\"lock_failures\":%ld,\"odd_status\":%ld,\"unlock_errors\":%ld,\"frozen_checks\":%ld,\"frozen_violations\":%ld,\"var_read_failures\":%ld,\"event_handler_chains\":%ld,\"wire_torn\":%ld,\"input_batches\":%ld,\"event_lines\":%ld,\"event_lines_bad\":%ld,\"per_producer\":[",
               P, (int)CAT_UNSOLICITED_CMD_BUFFER_SIZE, (unsigned long long)seed, T, acc, ref, del, bad, lock_calls, handovers, atomic_load(&contended), services, holds_entered,
               atomic_load(&hold_exits_ok), atomic_load(&hold_exits_nothold), atomic_load(&queries), write_refusals, lockfree_queries_in_handlers, bad_lockfree, atomic_load(&lock_failures), atomic_load(&odd_status), atomic_load(&unlock_errors), atomic_load(&frozen_checks), atomic_load(&frozen_violations), var_read_failures, event_handler_chains, wire_torn, input_batches, event_lines, event_lines_bad);
        for (int p = 0; p < P; p++) printf("%s[%ld,%ld,%ld]", p ? "," : "", atomic_load(&accepted[p]), atomic_load(&refused[p]), atomic_load(&delivered[p]));
        printf("]}\n");
        return (bad || atomic_load(&odd_status) || atomic_load(&unlock_errors) || atomic_load(&frozen_violations) || wire_torn || event_lines_bad) ? 1 : 0;
}
