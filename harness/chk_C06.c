/* C06 — handlers see exactly the sent arguments; over-long lines are rejected, not cut.
 * Oracle: the harness knows the bytes it sent.  For read/test handlers the "automatically formatted text" is
 * obtained differentially from a twin command without handler (so a change of the format is C07/C19's alarm). */
#include "common.h"
#include "refmodel.h"

const char *CHK_RULE = "one case = one table (write target with/without variables, implicit-write target, read/test target + handler-less twin) and several lines: argument "
                       "lengths 0..3*capacity with emphasis on capacity-2..capacity+1 over all byte values except LF (NUL included), CRs sprinkled in, explicit and implicit "
                       "writes, read/test requests and events; capacities 6..128, shared and separate buffers; non-trivial = a write line whose argument length is within 2 of "
                       "the capacity, or a read/test handler call compared with its twin; distinct by (capacity, argument length, kind, FSM)";

static struct { int ci, kind, fsm; uint8_t data[4200]; size_t size, max, argsn; bool nul_ok; size_t slen; } hc[8]; static int nhc;
static int nvcb; static bool two_pass; static unsigned noise_pm;
static cat_return_state policy(struct hcall *h)
{
        if (nhc < 8) {
                hc[nhc].ci = h->ci; hc[nhc].kind = h->kind; hc[nhc].fsm = h->fsm; hc[nhc].size = h->size; hc[nhc].max = h->max; hc[nhc].argsn = h->args_num;
                if (h->kind == K_WRITE) { size_t n = h->size < sizeof hc[0].data ? h->size : sizeof hc[0].data; memcpy(hc[nhc].data, h->data, n); hc[nhc].nul_ok = h->data[h->size] == 0; }
                else if (h->kind != K_RUN) {
                        volatile uint8_t sink = 0; for (size_t i = 0; i < h->max; i++) sink ^= h->data[i]; (void)sink;       /* every byte of the advertised capacity must be ours */
                        size_t n = strnlen((char *)h->data, h->max); hc[nhc].slen = n; memcpy(hc[nhc].data, h->data, n < sizeof hc[0].data ? n : sizeof hc[0].data - 1); hc[nhc].data[n < sizeof hc[0].data ? n : sizeof hc[0].data - 1] = 0;
                }
        }
        nhc++;
        if ((h->kind == K_READ || h->kind == K_TEST) && two_pass && nhc == 1) {
                /* scribble over the text and ask for another pass without emitting: the next invocation must be handed the automatic text again */
                size_t n = strnlen((char *)h->data, h->max);
                if (n + 3 < h->max) { memcpy(h->data + n, "zz", 3); *h->psize = n + 2; } else if (h->max) { h->data[0] = 0; *h->psize = 0; }
                return CAT_RETURN_STATE_NEXT;
        }
        return (h->kind == K_READ || h->kind == K_TEST) ? CAT_RETURN_STATE_DATA_OK : CAT_RETURN_STATE_OK;
}
static int vpolicy(int ci, int vi, int dir, size_t ws) { (void)ci; (void)vi; (void)dir; (void)ws; nvcb++; return 0; }
static char last_units[4][300]; static int nunits; static char unit_prod[4];
static void on_unit(bool isA, bool raw, const char *text, size_t len, bool a, bool b) { (void)raw; (void)len; (void)a; (void)b; if (nunits < 4) { snprintf(last_units[nunits], sizeof last_units[0], "%s", text); unit_prod[nunits] = isA ? 'A' : 'U'; } nunits++; }

static char note[300];
void chk_describe(FILE *f) { w_describe(f); fprintf(f, "%s\n", note); io_describe(f); }

static uint8_t *allvars; static size_t nvb;
static bool run_line(void)
{
        nhc = 0; nvcb = 0; nunits = 0; out_reset(); units_reset();
        w_save_vars(allvars);
        return run_quiet(quiet_bound() + 8 * (long)INLEN) >= 0;
}
static bool vars_changed(void) { uint8_t *now = malloc(nvb + 1); w_save_vars(now); bool ch = memcmp(now, allvars, nvb) != 0; free(now); return ch; }

/* commands: 0 "+W" write handler, no vars | 1 "+V" write handler + RW vars (uint8, string) | 2 "D" implicit write | 3 "+R" read+test handlers + vars | 4 "+Q" twin of +R without handlers
 *           5 "+N" read+test handlers, WO var only | 6 "+M" twin of +N */
static void build(size_t cap, bool shared, size_t ucap)
{
        w_begin();
        struct cat_command *a = w_group(9, false);
        a[8].name = xstr("+O"); a[8].test = h_test; a[8].write = h_write; a[8].only_test = true;      /* test-only: every line with an argument text is a WRITE request and refused, whatever the text looks like */
        a[7].name = xstr("+"); a[7].write = h_write; a[7].implicit_write = true; a[7].disable = true;     /* invisible: must not cut the names that start with it */
        a[0].name = xstr("+W"); a[0].write = h_write; w_vars(&a[0], 0);      /* no variables: var NULL or an empty table */
        a[1].name = xstr("+V"); a[1].write = h_write;
        { struct cat_variable *v = w_vars(&a[1], 2); v[0].type = CAT_VAR_UINT_DEC; w_vdata(&v[0], 1); v[0].write = hv_write; v[1].type = CAT_VAR_BUF_STRING; w_vdata(&v[1], 8); v[1].write = hv_write; }
        a[2].name = xstr("D"); a[2].write = h_write; a[2].implicit_write = true; w_vars(&a[2], 0);
        bool pct = chance(30);      /* '%' is a legal name character and natural in descriptions: descriptor strings are data, never formats */
        for (int t = 0; t < 2; t++) {
                struct cat_command *c = &a[3 + t];
                c->name = xstr(t ? (pct ? "+Q%d" : "+Q") : (pct ? "+R%d" : "+R")); if (!t) { c->read = h_read; c->test = h_test; }
                if (chance(50)) c->description = xstr(pct ? "r%sd 0-100%" : chance(15) ? "" : "rd");      /* an empty description is still a description: the newline is part of the text */
        }
        unsigned nv = 1 + rn(3);
        struct cat_variable *v3 = w_vars(&a[3], nv), *v4 = w_vars(&a[4], nv);
        for (unsigned j = 0; j < nv; j++) {
                v3[j].type = (cat_var_type)rn(5); v3[j].access = chance(70) ? CAT_VAR_ACCESS_READ_WRITE : CAT_VAR_ACCESS_READ_ONLY;
                size_t sz = v3[j].type <= CAT_VAR_NUM_HEX ? (size_t[]){ 1, 2, 4 }[rn(3)] : 1 + rn(6);
                uint8_t *d = w_vdata(&v3[j], sz); for (size_t b = 0; b < sz; b++) d[b] = (uint8_t)('a' + rn(26));
                if (v3[j].type <= CAT_VAR_NUM_HEX && chance(40)) {      /* values at the edges of the type and around the powers of ten / sixteen (digit counts change there) */
                        static const uint32_t e[] = { 0, 1, 9, 10, 99, 100, 999, 1000, 9999, 10000, 99999, 100000, 999999, 1000000, 9999999, 10000000, 99999999, 100000000, 999999999, 1000000000, 0x7fffffff, 0x80000000u, 0xffffffffu, 0xf, 0x10, 0xff, 0x100, 0xfff, 0x1000, 0xffff, 0x10000, 0xfffff, 0x100000, 0xffffff, 0x1000000, 0xfffffff, 0x10000000 };
                        uint32_t x = e[rn(sizeof e / sizeof e[0])]; if (v3[j].type == CAT_VAR_INT_DEC && chance(50)) x = (uint32_t)(0u - x);
                        memcpy(d, &x, sz);
                } if (v3[j].type == CAT_VAR_BUF_STRING && chance(75)) d[rn((unsigned)sz)] = 0;      /* a quarter of the strings fill their storage completely: no NUL inside data_size */
                v3[j].name = chance(50) ? (pct ? "n%u%" : chance(15) ? "measurement_interval_in_milliseconds_channel_0" : "n") : NULL;
                v4[j] = v3[j];
        }
        a[4].description = a[3].description;
        a[5].name = xstr("+N"); a[5].read = h_read; a[5].test = h_test; a[6].name = xstr("+M");
        { struct cat_variable *v = w_vars(&a[5], 1), *w = w_vars(&a[6], 1); v->type = CAT_VAR_UINT_DEC; v->access = CAT_VAR_ACCESS_WRITE_ONLY; w_vdata(v, 2); *w = *v; }
        if (chance(25)) w_noise_group(40 + rn(100));
        noise_pm = NOISE_PM;
        w_buffers(shared ? cap * 2 + rn(2) : cap, shared, ucap);
        w_init((int)rn(2));
        POLICY = policy; VPOLICY = vpolicy; ON_UNIT = on_unit;
        nvb = w_total_var_bytes(); allvars = xalloc(nvb + 1);
}

/* ---- write lines ---- */
static void write_line(int target /*0 +W,1 +V,2 D*/, size_t want_len, bool lower)
{
        static uint8_t args[4200], sent[8600]; size_t n = 0, ns = 0;
        if (want_len > 4100) want_len = 4100;
        in_reset();
        static const char *pre[4] = { "AT+W=", "AT+V=", "ATD", "AT+O=" }, *prel[4] = { "at+w=", "at+v=", "atd", "at+o=" };
        in_puts(lower ? prel[target] : pre[target]);
        if (target == 1) {
                /* valid variable texts padded to the wanted length with leading zeros: "000..7,\"ab\"" */
                size_t tail = 5, z = want_len > tail + 1 ? want_len - tail - 1 : 0;
                for (size_t i = 0; i < z; i++) args[n++] = '0';
                args[n++] = (uint8_t)('0' + rn(10)); memcpy(args + n, ",\"aB\"", 5); n += 5;
        } else {
                for (size_t i = 0; i < want_len; i++) { uint8_t ch; do ch = chance(70) ? (uint8_t)(' ' + rn(95)) : (uint8_t)rnd(); while (ch == '\n' || ch == '\r'); args[n++] = ch; }
                if (target == 3 && n >= 2 && chance(60)) args[n - 1] = '?';      /* "...?" at the end of an argument text is not the '?' of "=?" */
                if (target == 3 && n == 1 && args[0] == '?') args[0] = 'q';
                if (n && target == 0 && chance(6)) args[0] = '?';      /* "+W" has neither variables nor a test handler: a leading '?' is an ordinary argument byte for its write handler */
        }
        for (size_t i = 0; i < n; i++) { if (chance(4)) sent[ns++] = '\r'; sent[ns++] = args[i]; }
        if (chance(20)) sent[ns++] = '\r';
        in_put(sent, ns); in_putc('\n');
        NOISE_PM = noise_pm;
        snprintf(note, sizeof note, "write line to target %d, %zu argument bytes (CRs not counted), command capacity %zu", target, n, W.capA);
        if (!run_line()) { inconclusive("no quiescence (C15's subject)"); return; }
        bool fits = n < W.capA;
        CNT("write_lines");
        long d = (long)n - (long)W.capA;
        if (d >= -2 && d <= 1) { CNT("write_lines_at_capacity_boundary"); nontrivial(hash_u64((uint64_t)(W.capA * 8 + (size_t)(d + 2)), (uint64_t)target)); }
        DSET("capacity_length_cells", hash_u64(W.capA, (uint64_t)(d < -3 ? -3 : d > 3 ? 3 : d) + 10));
        if (target == 3) {
                CNT("write_lines_to_a_test_only_command");
                if (nhc != 0 || nvcb != 0) viol("C06", fits ? "handler-for-refused-request" : "handler-on-overlong-line", "a line with %zu argument bytes to a test-only command (capacity %zu) invoked %d handler(s), first of kind %d", n, W.capA, nhc, hc[0].kind);
                else if (!(RESULT_CODES == 1 && LAST_CODE == 'E' && PA.units == 1)) viol("C06", fits ? "refused-request-not-error" : "overlong-line-not-error", "a line with %zu argument bytes to a test-only command answered with %ld result codes (last %c), %ld units", n, RESULT_CODES, LAST_CODE ? LAST_CODE : '-', PA.units);
                return;
        }
        if (!fits) {
                CNT("overlong_lines");
                if (nhc != 0 || nvcb != 0) viol("C06", "handler-on-overlong-line", "%zu argument bytes do not fit capacity %zu but %d handler / %d variable callbacks ran (truncated processing)", n, W.capA, nhc, nvcb);
                else if (vars_changed()) viol("C06", "variable-changed-by-overlong-line", "a variable changed although the line does not fit the buffer");
                else if (!(RESULT_CODES == 1 && LAST_CODE == 'E' && PA.units == 1)) viol("C06", "overlong-line-not-error", "over-long line answered with %ld result codes (last %c), %ld units", RESULT_CODES, LAST_CODE ? LAST_CODE : '-', PA.units);
                return;
        }
        if (nhc != 1 || hc[0].kind != K_WRITE || hc[0].ci != target) { viol("C06", "write-handler-not-called", "line that fits (%zu < %zu) produced %d handler calls", n, W.capA, nhc); return; }
        if (hc[0].size != n) viol("C06", "args-length", "write handler got data_size %zu, %zu bytes were sent", hc[0].size, n);
        else if (memcmp(hc[0].data, args, n < sizeof hc[0].data ? n : sizeof hc[0].data) != 0) {
                size_t k = 0; while (k < n && hc[0].data[k] == args[k]) k++;
                viol("C06", "args-bytes", "write handler data differs from the bytes sent at index %zu (got 0x%02x, sent 0x%02x)", k, hc[0].data[k], args[k]);
        } else if (!hc[0].nul_ok) viol("C06", "args-not-terminated", "data[data_size] is not NUL");
        else if (hc[0].argsn != (target == 1 ? 2u : 0u)) viol("C06", "args-num", "args_num %zu, expected %u", hc[0].argsn, target == 1 ? 2u : 0u);
        if (sample_wanted()) { char b[200]; fmt_bytes(b, sizeof b, args, n > 40 ? 40 : n); sample_printf("capacity %zu, %s write of %zu bytes \"%s\"%s -> handler saw exactly these bytes, NUL-terminated, args_num %zu", W.capA, target == 2 ? "implicit" : "explicit", n, b, n > 40 ? "..." : "", hc[0].argsn); }
}

/* ---- read / test handlers vs twin ---- */
static void rt_pair(int kind, int fsm, int base /*3 or 5*/)
{
        NOISE_PM = 0;         /* the twin comparison reads the first unit of a run: no background events here */
        const char *hn = W.cmd[base]->name, *tn = W.cmd[base + 1]->name;
        char twin[300] = ""; bool twin_ok = false;
        /* twin first */
        in_reset();
        if (fsm == FSM_A) { in_puts("AT"); in_puts(tn); in_puts(kind == K_READ ? "?" : "=?"); in_puts("\n"); }
        else if (cat_trigger_unsolicited_event(W.at, W.cmd[base + 1], kind == K_READ ? CAT_CMD_TYPE_READ : CAT_CMD_TYPE_TEST) != CAT_STATUS_OK) { inconclusive("trigger refused"); return; }
        if (!run_line()) { inconclusive("no quiescence"); return; }
        if (nunits >= 1 && unit_prod[0] == (fsm == FSM_A ? 'A' : 'U') && strcmp(last_units[0], "ERROR") != 0 && strcmp(last_units[0], "OK") != 0) { snprintf(twin, sizeof twin, "%s", last_units[0]); twin_ok = true; }
        /* now the command with the handler */
        two_pass = twin_ok && chance(50);
        in_reset();
        if (fsm == FSM_A) { in_puts("AT"); in_puts(hn); in_puts(kind == K_READ ? "?" : "=?"); in_puts("\n"); }
        else if (cat_trigger_unsolicited_event(W.at, W.cmd[base], kind == K_READ ? CAT_CMD_TYPE_READ : CAT_CMD_TYPE_TEST) != CAT_STATUS_OK) { inconclusive("trigger refused"); return; }
        snprintf(note, sizeof note, "%s request on the %s FSM for \"%s\"; twin \"%s\" printed \"%s\"", kind == K_READ ? "READ" : "TEST", fsm ? "event" : "command", hn, tn, twin_ok ? twin : "(nothing)");
        if (!run_line()) { inconclusive("no quiescence"); return; }
        size_t cap = fsm == FSM_A ? W.capA : W.capU;
        CNT("read_test_pairs");
        if (!twin_ok) {
                /* the automatic response of the twin was refused: nothing readable (READ) or text too long */
                bool readable = ref_readable(W.cmd[base + 1]);
                if (kind == K_READ && !readable) {
                        /* handler-only command: it must be handed the "<name>=" prefix (DESIGN 3.2) if that fits */
                        if (strlen(hn) + 2 <= cap) {
                                if (nhc != 1) viol("C06", "read-handler-not-called", "read handler of a command without readable variable called %d times", nhc);
                                else { char exp[64]; snprintf(exp, sizeof exp, "%s=", hn); if (strncmp((char *)hc[0].data, exp, strlen(exp)) != 0) viol("C06", "response-text", "read handler was handed \"%.40s\", expected the prefix \"%s\"", (char *)hc[0].data, exp);
                                        if (hc[0].max != cap) viol("C06", "max-data-size", "max_data_size %zu, true capacity %zu", hc[0].max, cap); }
                        }
                } else if (nhc != 0) viol("C06", "handler-though-text-does-not-fit", "twin answered ERROR (text does not fit) but the handler was invoked");
                return;
        }
        if (two_pass && nhc == 2) {
                CNT("second_pass_texts_compared");
                if (strcmp((char *)hc[0].data, (char *)hc[1].data) != 0 || hc[1].size != hc[1].slen || hc[1].max != hc[0].max)
                        viol("C06", "response-text-second-pass", "after NEXT the handler was handed \"%.60s\" (size %zu) instead of the automatic text \"%.60s\"", (char *)hc[1].data, hc[1].size, (char *)hc[0].data);
        }
        if (nhc != (two_pass ? 2 : 1) || hc[0].kind != kind || hc[0].fsm != fsm) { viol("C06", "read-test-handler-not-called", "%d handler calls (first kind %d fsm %d), expected one of kind %d on fsm %d", nhc, nhc ? hc[0].kind : -1, nhc ? hc[0].fsm : -1, kind, fsm); return; }
        {       /* besides the twin: the reference formatter (a distortion common to both commands would pass the twin comparison) */
                char ref[600]; int rl = kind == K_READ ? ref_fmt_read(W.cmd[base], ref, sizeof ref) : ref_fmt_test(W.cmd[base], "\n", ref, sizeof ref);
                if (rl >= 0 && (size_t)rl < cap && strcmp(ref, (char *)hc[0].data) != 0) { viol("C06", "response-text", "handler was handed \"%.60s\" but the descriptor asks for \"%.60s\"", (char *)hc[0].data, ref); return; }
                CNT("handler_texts_compared_with_reference_formatter");
        }
        const char *te = strchr(twin, '='), *he = strchr((char *)hc[0].data, '=');
        if (!te || !he || strcmp(te, he) != 0 || strncmp((char *)hc[0].data, hn, strlen(hn)) != 0) viol("C06", "response-text", "handler was handed \"%.60s\" but the automatic response of the twin is \"%.60s\"", (char *)hc[0].data, twin);
        else if (hc[0].size != hc[0].slen) viol("C06", "response-length", "*data_size %zu but the text is %zu bytes long", hc[0].size, hc[0].slen);
        else if (hc[0].max != cap) viol("C06", "max-data-size", "max_data_size %zu, true capacity of that buffer %zu", hc[0].max, cap);
        nontrivial(hash_u64((uint64_t)(kind * 4 + fsm * 2 + (base == 5)), hash_bytes(twin, strlen(twin), cap)));
        DSET("rt_cells", (uint64_t)(kind * 8 + fsm * 2 + (base == 5) + 1));
        if (sample_wanted()) sample_printf("%s handler on the %s FSM handed \"%s\" (size %zu, max %zu) == automatic text of its handler-less twin", kind == K_READ ? "read" : "test", fsm ? "event" : "command", (char *)hc[0].data, hc[0].size, hc[0].max);
}

/* the same descriptor is used twice in a row on one state machine, with another name the second time (parser idle in between): the response carries the new name */
static void renamed_request(int fsm)
{
        static const char *nn[4] = { "+R2", "+RENAMED", "+X", "+R_WITH_A_MUCH_LONGER_NAME" };
        NOISE_PM = 0;
        for (int pass = 0; pass < 2 && !case_failed(); pass++) {
                if (pass == 1) { W.cmd[3]->name = xstr(nn[rn(4)]); CNT("descriptors_renamed_between_requests"); }
                const char *hn = W.cmd[3]->name;
                in_reset();
                if (fsm == FSM_A) { in_puts("AT"); in_puts(hn); in_puts("?\n"); }
                else if (cat_trigger_unsolicited_event(W.at, W.cmd[3], CAT_CMD_TYPE_READ) != CAT_STATUS_OK) { inconclusive("trigger refused"); return; }
                two_pass = false;
                snprintf(note, sizeof note, "READ request on the %s FSM for \"%s\"%s", fsm ? "event" : "command", hn, pass ? " (the descriptor had another name in the request before)" : "");
                if (!run_line()) { inconclusive("no quiescence"); return; }
                if (pass == 0) continue;
                size_t cap = fsm == FSM_A ? W.capA : W.capU;
                char ref[600]; int rl = ref_fmt_read(W.cmd[3], ref, sizeof ref);
                bool fits = rl >= 0 && (size_t)rl < cap && (ref_readable(W.cmd[3]) || true);
                if (fits && (nhc != 1 || strcmp(ref, (char *)hc[0].data) != 0 || hc[0].size != (size_t)rl)) viol("C06", "response-text", "after the descriptor was renamed the read handler was handed \"%.60s\" (size %zu, %d call(s)), the descriptor asks for \"%.60s\"", nhc ? (char *)hc[0].data : "", nhc ? hc[0].size : 0, nhc, ref);
                if (!fits && nhc != 0) viol("C06", "handler-though-text-does-not-fit", "the renamed command's text does not fit but the handler was invoked");
        }
}
/* an event whose handler puts the parser on hold while a write line is half received; the hold is released and the rest of the line arrives.  Whatever the
 * parser makes of the two halves, a write handler may only ever be handed bytes that were sent, in the order they were sent (a contiguous piece of the input) */
static long trig_at; static bool hold_event_mode; static int hold_event_calls;
static void on_read_trig(size_t off, uint8_t ch) { (void)ch; if ((long)off == trig_at) (void)cat_trigger_unsolicited_event(W.at, W.cmd[3], chance(50) ? CAT_CMD_TYPE_READ : CAT_CMD_TYPE_TEST); }
static cat_return_state hold_policy(struct hcall *h)
{
        if (hold_event_mode && h->fsm == FSM_U && hold_event_calls++ == 0) return CAT_RETURN_STATE_HOLD;
        return policy(h);
}
static void hold_midline(void)
{
        static uint8_t args[600]; size_t n = 0;
        NOISE_PM = 0;
        size_t L = 2 + rn((unsigned)(W.capA > 8 ? (W.capA < 500 ? W.capA - 3 : 500) : 4));
        int target = chance(70) ? 0 : 2;
        in_reset(); in_puts(target == 0 ? "AT+W=" : "ATD");
        size_t pre = INLEN;
        for (size_t i = 0; i < L; i++) args[n++] = (uint8_t)('!' + rn(90));
        in_put(args, n); in_putc('\n');
        if (chance(50)) in_puts("AT+W=tail\n");
        trig_at = (long)pre + (long)rn((unsigned)L);
        hold_event_mode = true; hold_event_calls = 0; POLICY = hold_policy; ON_READ = on_read_trig;
        nhc = 0; nvcb = 0; nunits = 0; out_reset(); units_reset();
        snprintf(note, sizeof note, "write line of %zu argument bytes; an event raised at input offset %ld puts the parser on hold; released after a few calls; capacity %zu", n, trig_at, W.capA);
        long bound = quiet_bound() + 8 * (long)INLEN, i = 0;
        for (; i < bound && cat_is_hold(W.at) != CAT_STATUS_HOLD; i++) { (void)svc(); if (case_failed()) goto out; if (INPOS >= INLEN && i > (long)INLEN * 4 + 200) break; }
        if (cat_is_hold(W.at) == CAT_STATUS_HOLD) {
                CNT("holds_started_by_an_event_in_the_middle_of_a_write_line");
                for (unsigned k = rn(6); k > 0; k--) { (void)svc(); if (case_failed()) goto out; }
                (void)cat_hold_exit(W.at, chance(70) ? CAT_STATUS_OK : CAT_STATUS_ERROR_UNKNOWN_STATE);
        } else CNT("event_holds_not_reached");
        ON_READ = NULL;
        if (run_quiet(bound) < 0) { inconclusive("no quiescence (C15's subject)"); goto out; }
        for (int k = 0; k < nhc && k < 8; k++) {
                if (hc[k].kind != K_WRITE) continue;
                CNT("write_handler_calls_around_an_event_hold");
                size_t sz = hc[k].size < sizeof hc[0].data ? hc[k].size : sizeof hc[0].data;
                bool found = sz == 0;
                for (size_t o = 0; !found && o + sz <= INLEN; o++) if (memcmp(INB + o, hc[k].data, sz) == 0) found = true;
                if (!found) { char b[200]; fmt_bytes(b, sizeof b, hc[k].data, sz > 40 ? 40 : sz); viol("C06", "args-bytes", "after an event put the parser on hold in the middle of the line, a write handler was handed %zu bytes \"%s\" that do not occur in the input", hc[k].size, b); goto out; }
                if (!hc[k].nul_ok) { viol("C06", "args-not-terminated", "data[data_size] is not NUL (write handler call after an event hold)"); goto out; }
        }
out:
        hold_event_mode = false; POLICY = policy; ON_READ = NULL;
}
struct case_budget chk_budget(const char *tier)
{
        struct case_budget b = { (128 - 6 + 1) * 2, strcmp(tier, "thorough") == 0 ? 2500000 : 40000 };
        return b;
}
void chk_run_case(uint64_t seed, long c, bool is_sweep)
{
        (void)seed; note[0] = 0;
        size_t cap; bool shared;
        if (is_sweep) { cap = 6 + (size_t)(c / 2); shared = c & 1; }
        else { cap = chance(85) ? 6 + rn(chance(60) ? 40 : 123) : chance(60) ? 250 + rn(13) : (size_t[]){ 300, 511, 512, 513, 1000, 1300 }[rn(6)]; shared = chance(50); }      /* also capacities around 2^8 and beyond: length counters must not wrap */
        build(cap, shared, rn(3) == 0 ? rn(12) : 8 + rn(100));
        /* every boundary length for the three write targets */
        static const long D[] = { -2, -1, 0, 1 };
        for (int t = 0; t < 3 && !case_failed(); t++)
                for (int k = 0; k < 4 && !case_failed(); k++) { long L = (long)W.capA + D[k]; if (L < 0) L = 0; if (t == 1 && L < 8) continue; write_line(t, (size_t)L, chance(50)); }
        for (int r = 0; r < 6 && !case_failed(); r++) { unsigned m = rn(4); size_t L = m == 0 ? rn(4) : m == 1 ? rn((unsigned)W.capA + 3) : m == 2 ? W.capA + rn((unsigned)W.capA * 2 + 2) : W.capA - 1 - rn(W.capA > 3 ? 3 : 1); int t = (int)rn(3); if (t == 1 && L < 8) t = 0; if (chance(15)) t = 3; write_line(t, L, chance(50)); }
        for (int kind = K_READ; kind <= K_TEST && !case_failed(); kind += 2)
                for (int fsm = 0; fsm < 2 && !case_failed(); fsm++) { rt_pair(kind, fsm, 3); if (!case_failed()) rt_pair(kind, fsm, 5); }
        if (!case_failed() && chance(30)) for (int fsm = 0; fsm < 2 && !case_failed(); fsm++) renamed_request(fsm);
        if (!case_failed() && chance(35)) hold_midline();
}
int main(int argc, char **argv) { MY_PROP = "C06"; PROG_NAME = "chk_C06"; return verif_main(argc, argv); }
