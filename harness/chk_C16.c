/* C16 — mutex discipline: balanced, non-nested, nothing touched without the lock (fault enumeration).
 * Monitors: mock mutex with depth counter (common.c: lock-while-held, unlock-not-held, callback outside the lock),
 * per-API-call bracket (exactly one lock and one unlock per locking call), state hashes at call / lock / unlock /
 * return, and a fault-free twin: for a history with K lock calls every "lock #k fails" and "unlock #k fails" run
 * is executed; a failed lock must do nothing at all (the harness retries it), a failed unlock must only change the
 * return value, and the rest of the history must be identical to the fault-free run. */
#include "engine.h"

const char *CHK_RULE = "one case = one history of 120..400 API calls mixing all eight locking functions (cat_service, cat_is_busy, cat_is_hold, cat_is_unsolicited_buffer_full, "
                       "cat_trigger_unsolicited_event/_read/_test, cat_hold_exit) over command lines, holds, events and write back-pressure, run fault-free once and then once "
                       "per (lock call k, fault kind) exhaustively; a second, cheap workload runs the engine's histories with the mock mutex and bracket monitors only; evaluations = faulty runs + fault-free runs + engine histories; non-trivial = faulty run whose faulted call happened in a "
                       "non-idle parser state; distinct by (history, k, fault kind)";

enum { OP_SERVICE, OP_BUSY, OP_HOLD, OP_FULL, OP_TRIG, OP_TRIG_R, OP_TRIG_T, OP_HEXIT, OP__N };
static const char *OPN[] = { "cat_service", "cat_is_busy", "cat_is_hold", "cat_is_unsolicited_buffer_full", "cat_trigger_unsolicited_event", "cat_trigger_unsolicited_read", "cat_trigger_unsolicited_test", "cat_hold_exit" };
struct op { uint8_t type, ci, arg; };
#define MAXOPS 420
static struct op ops[MAXOPS]; static int nops;
static int ret_ref[MAXOPS], ret_run[MAXOPS];
static prng_t HP; static uint64_t trace_h;
static uint8_t wbits[4096];
static uint8_t *vars0; static size_t nvb;
static char note[300];
static int cur_op; static long locks_in_call, unlocks_in_call; static uint64_t h_call, h_unlock; static bool have_unlock;
static int fault_op = -1, fault_op_u = -1; static int fault_state_class;

static uint64_t world_hash(void)
{
        uint64_t h = hash_bytes(W.at, sizeof *W.at, 1);
        h = hash_bytes(W.buf, W.bufsz, h);
        if (W.ubuf) h = hash_bytes(W.ubuf, W.ubufsz, h);
        for (size_t i = 0; i < W.ncmds; i++) for (size_t j = 0; j < W.cmd[i]->var_num; j++) h = hash_bytes(W.cmd[i]->var[j].data, W.cmd[i]->var[j].data_size, h);
        return h;
}
static void on_lock(bool is_lock, int result)
{
        if (is_lock) {
                locks_in_call++;
                if (world_hash() != h_call) viol("C16", "state-touched-before-lock", "%s modified parser state before taking the lock", OPN[ops[cur_op].type]);
                (void)result;
        } else {
                unlocks_in_call++;
                h_unlock = world_hash(); have_unlock = true;
        }
}
static cat_return_state policy(struct hcall *h)
{
        trace_h = hash_u64((uint64_t)(h->ci * 16 + h->kind * 2 + h->fsm), trace_h);
        if (h->kind == K_WRITE) trace_h = hash_bytes(h->data, h->size, trace_h);
        unsigned r = pr_n(&HP, 100);
        if (h->kind == K_READ || h->kind == K_TEST) { if (pr_pct(&HP, 40) && h->max >= 12) *h->psize = (size_t)snprintf((char *)h->data, h->max, "~%u", pr_n(&HP, 100)); }
        if (r < 20) return pr_pct(&HP, 50) ? CAT_RETURN_STATE_NEXT : CAT_RETURN_STATE_DATA_NEXT;
        if (r < 45) return CAT_RETURN_STATE_DATA_OK;
        if (r < 60) return CAT_RETURN_STATE_OK;
        if (r < 72 && (h->fsm == FSM_A || r < 63)) return CAT_RETURN_STATE_HOLD;      /* also from event handlers: what HOLD does there is not specified, but the mutex discipline must hold for every return code */
        if (r < 80) return CAT_RETURN_STATE_ERROR;
        if (r < 88) return h->fsm == FSM_U ? (pr_pct(&HP, 50) ? CAT_RETURN_STATE_HOLD_EXIT_OK : CAT_RETURN_STATE_HOLD_EXIT_ERROR) : CAT_RETURN_STATE_PRINT_CMD_LIST_OK;
        return CAT_RETURN_STATE_OK;
}
static int vpolicy(int ci, int vi, int dir, size_t ws) { trace_h = hash_u64((uint64_t)(ci * 100 + vi * 4 + dir) + ws * 1000, trace_h); return 0; }

static int state_class(void)      /* coverage accounting only */
{
        int s = OBJ_STATE(), c;
        if (s == CAT_STATE_IDLE) c = 0; else if (s == CAT_STATE_HOLD) c = 4; else if (s == CAT_STATE_FLUSH_IO_WRITE || s == CAT_STATE_FLUSH_IO_WRITE_WAIT) c = 3;
        else if (s >= CAT_STATE_PARSE_PREFIX && s <= CAT_STATE_PARSE_COMMAND_ARGS) c = 1; else c = 2;
        if (OBJ_USTATE() != CAT_UNSOLICITED_STATE_IDLE) c += 5;
        if (OBJ_UCOUNT() == CAT_UNSOLICITED_CMD_BUFFER_SIZE) c += 10;
        return c;
}
static int do_op(const struct op *o)
{
        switch (o->type) {
        case OP_SERVICE: return (int)svc();
        case OP_BUSY: return (int)cat_is_busy(W.at);
        case OP_HOLD: return (int)cat_is_hold(W.at);
        case OP_FULL: return (int)cat_is_unsolicited_buffer_full(W.at);
        case OP_TRIG: return (int)cat_trigger_unsolicited_event(W.at, W.cmd[o->ci], o->arg ? CAT_CMD_TYPE_TEST : CAT_CMD_TYPE_READ);
        case OP_TRIG_R: return (int)cat_trigger_unsolicited_read(W.at, W.cmd[o->ci]);
        case OP_TRIG_T: return (int)cat_trigger_unsolicited_test(W.at, W.cmd[o->ci]);
        default: return (int)cat_hold_exit(W.at, o->arg ? CAT_STATUS_ERROR : CAT_STATUS_OK);
        }
}
/* one API call under the bracket monitors */
static int guarded(const struct op *o, int idx)
{
        cur_op = idx; locks_in_call = unlocks_in_call = 0; have_unlock = false;
        h_call = world_hash();
        int r = do_op(o);
        uint64_t h_ret = world_hash();
        if (MX_DEPTH != 0) { viol("C16", "lock-not-released", "%s returned %d with the lock still held", OPN[o->type], r); MX_DEPTH = 0; }
        if (locks_in_call != 1) viol("C16", locks_in_call ? "lock-taken-twice" : "no-lock-taken", "%s called mutex->lock %ld times", OPN[o->type], locks_in_call);
        if (have_unlock && h_ret != h_unlock) viol("C16", "state-touched-after-unlock", "%s modified parser state after releasing the lock", OPN[o->type]);
        if (r != CAT_STATUS_ERROR_MUTEX_LOCK && unlocks_in_call != 1) viol("C16", "unlock-count", "%s called mutex->unlock %ld times", OPN[o->type], unlocks_in_call);
        return r;
}
struct outcome { uint8_t out[1 << 14]; size_t n; uint64_t trace, final; };
static struct outcome ref_o, run_o;

/* ---- contention twin: while call A waits in mutex->lock (its k-th invocation) another party, which holds the mutex, completes a whole API call B.
 * That schedule must be indistinguishable from "B, then A" run one after the other: same return values, output, handler trace and final state. ---- */
static long cont_at = -1; static struct op cont_op; static int cont_ret; static bool cont_done;
static void on_lock_wait(long k)
{
        if (k != cont_at || cont_done) return;
        cont_done = true;
        if (world_hash() != h_call) viol("C16", "state-touched-before-lock", "%s modified parser state before taking the lock", OPN[ops[cur_op].type]);
        long l = locks_in_call, u = unlocks_in_call; bool hu = have_unlock; uint64_t hul = h_unlock; int ph = PHASE;
        PHASE = 0;
        cont_ret = do_op(&cont_op);
        PHASE = ph;
        if (MX_DEPTH != 0) { viol("C16", "lock-not-released", "%s returned with the lock still held", OPN[cont_op.type]); MX_DEPTH = 0; }
        locks_in_call = l; unlocks_in_call = u; have_unlock = hu; h_unlock = hul;
        h_call = world_hash();      /* what A may rely on starts when the mutex is granted */
}

static int seq_insert_before = -1; static int seq_ret;      /* reference twin of a contended run: the contender's call is made just before call #seq_insert_before */
static void run_history(long fail_lock, long fail_unlock, int *rets, struct outcome *o)
{
        cont_done = false;
        w_load_vars(vars0);
        w_reinit(0);
        INPOS = 0; out_reset(); units_reset(); trace_h = 5; fault_op = -1; fault_op_u = -1;
        MX_LOCKS = MX_UNLOCKS = 0; MX_DEPTH = 0; MX_FAIL_LOCK_AT = fail_lock; MX_FAIL_UNLOCK_AT = fail_unlock;
        pr_seed(&HP, CUR_SEED ^ 0x16, (uint64_t)CUR_CASE);
        POLICY = policy; VPOLICY = vpolicy; ON_LOCK = on_lock; ON_LOCK_WAIT = cont_at >= 0 ? on_lock_wait : NULL;
        sch_bits(&WS, wbits, sizeof wbits); sch_eager(&RS);
        for (int i = 0; i < nops && !case_failed(); i++) {
                long l0 = MX_LOCKS, u0 = MX_UNLOCKS;
                bool lock_fault_here = fail_lock >= 0 && l0 == fail_lock, unlock_fault_here = fail_unlock >= 0 && u0 == fail_unlock;
                if (lock_fault_here || unlock_fault_here) { fault_op = i; fault_state_class = state_class(); }
                if (unlock_fault_here) fault_op_u = i;
                if (i == seq_insert_before) { seq_ret = guarded(&cont_op, i); fault_op = i; fault_state_class = state_class(); }
                if (cont_at >= 0 && !cont_done && MX_LOCKS == cont_at) { fault_op = i; fault_state_class = state_class(); }
                if (lock_fault_here) {
                        uint64_t before = world_hash(); long cbs = N_READ_OK + N_READ_NO + N_WRITE_OK + N_WRITE_NO + N_VCALL[0] + N_VCALL[1]; for (int f = 0; f < 2; f++) for (int k = 0; k < 4; k++) cbs += N_HCALL[f][k];
                        int r = guarded(&ops[i], i);
                        long cbs2 = N_READ_OK + N_READ_NO + N_WRITE_OK + N_WRITE_NO + N_VCALL[0] + N_VCALL[1]; for (int f = 0; f < 2; f++) for (int k = 0; k < 4; k++) cbs2 += N_HCALL[f][k];
                        if (r != CAT_STATUS_ERROR_MUTEX_LOCK) viol("C16", "lock-failure-not-reported", "%s returned %d although mutex->lock failed", OPN[ops[i].type], r);
                        if (unlocks_in_call != 0) viol("C16", "unlock-after-failed-lock", "%s called mutex->unlock although the lock was not taken", OPN[ops[i].type]);
                        if (cbs2 != cbs) viol("C16", "callback-after-failed-lock", "%s invoked a callback although mutex->lock failed", OPN[ops[i].type]);
                        if (world_hash() != before) viol("C16", "state-changed-after-failed-lock", "%s changed parser state although mutex->lock failed", OPN[ops[i].type]);
                        /* the call did nothing: the application retries it */
                }
                int r = guarded(&ops[i], i);
                if (unlock_fault_here && r != CAT_STATUS_ERROR_MUTEX_UNLOCK) viol("C16", "unlock-failure-not-reported", "%s returned %d although mutex->unlock failed", OPN[ops[i].type], r);
                rets[i] = r;
        }
        o->n = OUTN < sizeof o->out ? OUTN : sizeof o->out; memcpy(o->out, OUTB, o->n); o->trace = trace_h; o->final = world_hash();
}
void chk_describe(FILE *f)
{
        if (nops == 0) { fprintf(f, "%s\n", note); eng_describe(f); return; }
        w_describe(f); fprintf(f, "%s\nhistory (%d calls):", note, nops);
        for (int i = 0; i < nops; i++) { if (i % 10 == 0) fprintf(f, "\n  "); fprintf(f, "%d:%s(%d,%d)%s ", i, OPN[ops[i].type] + 4, ops[i].ci, ops[i].arg, i == fault_op ? "<<FAULT" : ""); }
        fprintf(f, "\n"); io_describe(f);
}

/* ---- second workload: the rich engine histories (events from the harness, holds, lists, back-pressure, probes, queries) with the mock mutex and no faults.
 * Bracket monitors of common.c (lock while held, unlock while not held, any io / handler / variable callback outside the lock) plus: the hash of
 * (object, buffers, variables) taken at every lock must equal the one taken at the previous unlock - nothing is touched outside the bracket. ---- */
static uint64_t b_last_unlock; static bool b_have; static long b_brackets;
static void b_on_lock(bool is_lock, int result)
{
        (void)result;
        uint64_t h = world_hash();
        if (is_lock) { if (b_have && h != b_last_unlock) viol("C16", "state-touched-outside-the-lock", "parser state changed between the previous unlock and this lock"); }
        else { b_last_unlock = h; b_have = true; b_brackets++; }
}
/* another party calls the locking API while cat_service is inside a handler, i.e. while it holds the mutex: the other party's attempt to lock fails (a timed
 * lock that gives up), so its call must report ERROR_MUTEX_LOCK, must not unlock, and must have done nothing at all */
static prng_t FP;
static void foreign_probe(struct hcall *h)
{
        (void)h;
        if (W.use_mutex && MX_DEPTH == 1 && pr_pct(&FP, 6)) {
                struct op o; unsigned r = pr_n(&FP, 100); o.ci = (uint8_t)pr_n(&FP, (unsigned)W.ncmds); o.arg = (uint8_t)pr_n(&FP, 2);
                o.type = r < 50 ? OP_TRIG : r < 60 ? OP_TRIG_R : r < 70 ? OP_TRIG_T : r < 80 ? OP_HEXIT : r < 87 ? OP_BUSY : r < 94 ? OP_FULL : OP_HOLD;
                void (*keep)(bool, int) = ON_LOCK; void (*keepw)(long) = ON_LOCK_WAIT; ON_LOCK = NULL; ON_LOCK_WAIT = NULL;
                uint64_t before = world_hash(); long f0 = MX_FOREIGN_LOCKS, l0 = MX_LOCKS, u0 = MX_UNLOCKS; int ph = PHASE;
                MX_FOREIGN_CALLER = true; PHASE = 0;
                int rr = do_op(&o);
                MX_FOREIGN_CALLER = false; PHASE = ph; ON_LOCK = keep; ON_LOCK_WAIT = keepw;
                CNT("api_calls_by_another_party_while_a_handler_runs");
                if (MX_FOREIGN_LOCKS - f0 + MX_LOCKS - l0 != 1) viol("C16", MX_FOREIGN_LOCKS == f0 ? "no-lock-taken" : "lock-taken-twice", "%s, called while cat_service holds the mutex (inside a handler), called mutex->lock %ld times", OPN[o.type], MX_FOREIGN_LOCKS - f0 + MX_LOCKS - l0);
                else if (rr != CAT_STATUS_ERROR_MUTEX_LOCK) viol("C16", "lock-failure-not-reported", "%s returned %d although mutex->lock failed (the mutex is held by cat_service)", OPN[o.type], rr);
                if (MX_UNLOCKS != u0) { viol("C16", "unlock-after-failed-lock", "%s called mutex->unlock although the lock was not taken", OPN[o.type]); MX_DEPTH = 1; }
                if (world_hash() != before) viol("C16", "state-changed-after-failed-lock", "%s changed parser state although mutex->lock failed", OPN[o.type]);
        }
}
static void engine_history_with_mutex(void)
{
        snprintf(note, sizeof note, "engine history with the mock mutex (bracket monitors only, no fault)");
        nops = 0; fault_op = -1;
        eng_default_profile();
        EP.p_handler_trigger = 0;              /* a handler runs under the lock: calling the locking API from it would self-deadlock a non-recursive mutex (application bug, DESIGN 3.2) */
        EP.p_event_step = 20 + rn(100); EP.p_hold = 20; EP.p_cut = 10; EP.unspecified_cells = chance(40);
        NEXT_WORLD_USE_MUTEX = true;
        eng_gen_table();
        NEXT_WORLD_USE_MUTEX = false;
        eng_gen_input(1 + rn(8));
        eng_random_schedules();
        b_have = false; b_brackets = 0;
        eng_monitors_install();
        ON_LOCK = b_on_lock;
        ENG_ON_HANDLER = foreign_probe; pr_seed(&FP, CUR_SEED ^ 0xF0, (uint64_t)CUR_CASE);
        eng_run_history();
        ENG_ON_HANDLER = NULL;
        if (MX_DEPTH != 0) viol("C16", "lock-not-released", "the lock is still held at the end of the history");
        if (MX_LOCKS != MX_UNLOCKS) viol("C16", "unbalanced", "%ld lock calls, %ld unlock calls", MX_LOCKS, MX_UNLOCKS);
        CNT("engine_histories_with_mutex"); CNTN("brackets_checked_in_engine_histories", b_brackets);
        if (b_brackets > 50) nontrivial(hash_u64((uint64_t)b_brackets, hash_bytes(INB, INLEN, hash_u64(W.ncmds, 1600))));
}
struct case_budget chk_budget(const char *tier)
{
        /* one case in 64 is a fault-enumerated history (expensive), the others are engine histories with bracket monitors only */
        struct case_budget b = { 0, (strcmp(tier, "thorough") == 0 ? 8000 : 320) * 64 };
        return b;
}
void chk_run_case(uint64_t seed, long c, bool is_sweep)
{
        (void)seed; (void)is_sweep; note[0] = 0;
        SHADOW_PCT = 20;
        if (c % 64 != 0) { engine_history_with_mutex(); return; }
        if ((c / 64) & 1) SHADOW_PCT = 0;      /* every second enumerated history runs without the second parser instance: its service calls would hide state that is shared between two objects by mistake only when exactly one object is used */
        w_begin();
        W.use_mutex = true;
        struct cat_command *a = w_group(6, false);
        a[0].name = xstr("+A"); a[0].run = h_run; a[0].read = h_read; a[0].write = h_write; a[0].test = h_test;
        { struct cat_variable *v = w_vars(&a[0], 2); v[0].type = CAT_VAR_UINT_DEC; w_vdata(&v[0], 1); v[0].write = hv_write; v[0].read = hv_read; v[1].type = CAT_VAR_BUF_STRING; uint8_t *d = w_vdata(&v[1], 6); memcpy(d, "ab", 3); }
        a[1].name = xstr("+E"); { struct cat_variable *v = w_vars(&a[1], 1); v->type = CAT_VAR_NUM_HEX; v->name = "x"; uint8_t *d = w_vdata(v, 2); d[0] = 0x34; d[1] = 0x12; } a[1].description = xstr("ev");
        a[2].name = xstr("+H"); a[2].read = h_read; a[2].test = h_test;
        a[3].name = xstr("+F");                                  /* READ event fails at once */
        a[4].name = xstr("+Z"); a[4].run = h_run; a[4].disable = true;      /* skipped by the command list (it is not the last entry) */
        a[5].name = xstr("D"); a[5].write = h_write; a[5].implicit_write = true;
        bool shared = chance(50);
        w_buffers(shared ? 96 + rn(2) : 48, shared, 32);
        w_init(0);
        nvb = w_total_var_bytes(); vars0 = xalloc(nvb + 1); w_save_vars(vars0);
        /* input */
        static const char *lines[] = { "AT+A\n", "AT+A?\r\n", "AT+A=7,\"xy\"\n", "AT+A=?\n", "ATD55\n", "AT+E?\n", "AT+E=?\n", "AT+X\n", "AT\n", "AT+A=999\n", "at+h?\n", "AT+H=?\r\n" };
        in_reset(); unsigned nl = 4 + rn(8); for (unsigned l = 0; l < nl; l++) in_puts(lines[rn(12)]);
        for (size_t i = 0; i < sizeof wbits; i++) wbits[i] = (uint8_t)(rn(100) < 80);
        nops = 120 + (int)rn(281);
        for (int i = 0; i < nops; i++) {
                unsigned r = rn(100); struct op *o = &ops[i]; o->ci = (uint8_t)rn(4); o->arg = (uint8_t)rn(2);
                o->type = r < 62 ? OP_SERVICE : r < 68 ? OP_BUSY : r < 74 ? OP_HOLD : r < 79 ? OP_FULL : r < 85 ? OP_TRIG : r < 89 ? OP_TRIG_R : r < 93 ? OP_TRIG_T : OP_HEXIT;
        }
        snprintf(note, sizeof note, "fault-free run");
        run_history(-1, -1, ret_ref, &ref_o);
        if (case_failed()) return;
        long K = MX_LOCKS;
        CNT("fault_free_histories"); CNTN("lock_calls_in_fault_free_runs", K);
        for (long k = 0; k < K && !case_failed(); k++) for (int kind = 0; kind < 2 && !case_failed(); kind++) {
                snprintf(note, sizeof note, "faulty run: mutex->%s call #%ld fails", kind ? "unlock" : "lock", k);
                CUR_STEP = 0;
                run_history(kind ? -1 : k, kind ? k : -1, ret_run, &run_o);
                CNT("faulty_runs"); if (kind) CNT("unlock_faults"); else CNT("lock_faults");
                if (case_failed()) break;
                if (fault_op < 0) { viol("C16", "fault-not-reached", "lock call #%ld was not reached in the faulty run: the history diverged before", k); break; }
                for (int i = 0; i < nops; i++) if (ret_run[i] != ret_ref[i] && !(kind == 1 && i == fault_op)) { viol("C16", "history-diverges-after-fault", "after the %s fault in call %d (%s) call %d (%s) returned %d instead of %d", kind ? "unlock" : "lock", fault_op, OPN[ops[fault_op].type], i, OPN[ops[i].type], ret_run[i], ret_ref[i]); break; }
                if (case_failed()) break;
                if (run_o.n != ref_o.n || memcmp(run_o.out, ref_o.out, ref_o.n) != 0) viol("C16", "output-diverges-after-fault", "output differs from the fault-free run after the %s fault in call %d (%s)", kind ? "unlock" : "lock", fault_op, OPN[ops[fault_op].type]);
                else if (run_o.trace != ref_o.trace) viol("C16", "handlers-diverge-after-fault", "handler trace differs from the fault-free run after the %s fault in call %d (%s)", kind ? "unlock" : "lock", fault_op, OPN[ops[fault_op].type]);
                else if (run_o.final != ref_o.final) viol("C16", "state-diverges-after-fault", "final parser state differs from the fault-free run after the %s fault in call %d (%s)", kind ? "unlock" : "lock", fault_op, OPN[ops[fault_op].type]);
                DSET("function_state_fault_cells", (uint64_t)(ops[fault_op].type * 100 + fault_state_class * 2 + kind + 1));
                if (fault_state_class != 0) nontrivial(hash_u64((uint64_t)(k * 2 + kind), hash_u64((uint64_t)CUR_CASE, CUR_SEED)));
        }
        /* two faults in a row: unlock #k fails and the very next lock call fails too (a mutex that stays broken for a moment).  The call with the failed lock
         * does nothing and reports it; the harness retries it; everything else as in the fault-free run */
        for (long k = 0; k + 1 < K && !case_failed(); k += 1 + (long)rn(3)) {
                snprintf(note, sizeof note, "faulty run: mutex->unlock call #%ld fails and the following mutex->lock call fails too", k);
                CUR_STEP = 0;
                run_history(k + 1, k, ret_run, &run_o);
                CNT("double_fault_runs");
                if (case_failed()) break;
                if (fault_op < 0 || fault_op_u < 0) { viol("C16", "fault-not-reached", "the double fault at unlock call #%ld was not reached", k); break; }
                for (int i = 0; i < nops; i++) if (ret_run[i] != ret_ref[i] && i != fault_op_u) { viol("C16", "history-diverges-after-fault", "after unlock call #%ld and the next lock call failed, call %d (%s) returned %d instead of %d", k, i, OPN[ops[i].type], ret_run[i], ret_ref[i]); break; }
                if (case_failed()) break;
                if (ret_run[fault_op_u] != CAT_STATUS_ERROR_MUTEX_UNLOCK) viol("C16", "unlock-failure-not-reported", "%s returned %d although mutex->unlock failed", OPN[ops[fault_op_u].type], ret_run[fault_op_u]);
                else if (run_o.n != ref_o.n || memcmp(run_o.out, ref_o.out, ref_o.n) != 0) viol("C16", "output-diverges-after-fault", "output differs from the fault-free run after the double fault at unlock call #%ld", k);
                else if (run_o.trace != ref_o.trace) viol("C16", "handlers-diverge-after-fault", "handler trace differs from the fault-free run after the double fault at unlock call #%ld", k);
                else if (run_o.final != ref_o.final) viol("C16", "state-diverges-after-fault", "final parser state differs from the fault-free run after the double fault at unlock call #%ld", k);
        }
        /* contention: every lock call of the history once, with a contender drawn per call */
        for (long k = 0; k < K && !case_failed(); k++) {
                unsigned r = rn(100);
                cont_op.ci = (uint8_t)rn(4); cont_op.arg = (uint8_t)rn(2);
                cont_op.type = r < 40 ? OP_TRIG : r < 50 ? OP_TRIG_R : r < 60 ? OP_TRIG_T : r < 70 ? OP_HEXIT : r < 80 ? OP_BUSY : r < 88 ? OP_FULL : r < 94 ? OP_HOLD : OP_SERVICE;
                if (k < nops && ops[k].type == OP_SERVICE && cont_op.type == OP_SERVICE) cont_op.type = OP_TRIG;      /* two concurrent cat_service calls are not a supported use (fault-free, call #k makes lock call #k) */
                snprintf(note, sizeof note, "contended run: %s(%d,%d) completes while lock call #%ld is waiting", OPN[cont_op.type], cont_op.ci, cont_op.arg, k);
                CUR_STEP = 0; cont_at = k; seq_insert_before = -1;
                run_history(-1, -1, ret_run, &run_o);
                cont_at = -1;
                if (case_failed()) break;
                if (!cont_done || fault_op < 0) { viol("C16", "fault-not-reached", "lock call #%ld was not reached in the contended run", k); break; }
                int at = fault_op, fsc = fault_state_class;
                int cr = cont_ret;
                snprintf(note, sizeof note, "sequential twin of the contended run: %s(%d,%d) called just before call %d", OPN[cont_op.type], cont_op.ci, cont_op.arg, at);
                CUR_STEP = 0; seq_insert_before = at;
                static int ret_seq[MAXOPS]; static struct outcome seq_o;
                run_history(-1, -1, ret_seq, &seq_o);
                seq_insert_before = -1;
                if (case_failed()) break;
                CNT("contended_runs");
                snprintf(note, sizeof note, "contended run: %s(%d,%d) completes while call %d (%s), lock call #%ld, is waiting for the mutex; compared with the sequential order", OPN[cont_op.type], cont_op.ci, cont_op.arg, at, OPN[ops[at].type], k);
                fault_op = at;
                if (cr != seq_ret) viol("C16", "contention-changes-result", "the contender %s returned %d, %d when called just before", OPN[cont_op.type], cr, seq_ret);
                for (int i = 0; i < nops && !case_failed(); i++) if (ret_run[i] != ret_seq[i]) viol("C16", "contention-changes-result", "call %d (%s) returned %d in the contended run and %d in the sequential one", i, OPN[ops[i].type], ret_run[i], ret_seq[i]);
                if (case_failed()) break;
                if (run_o.n != seq_o.n || memcmp(run_o.out, seq_o.out, seq_o.n) != 0) viol("C16", "contention-changes-output", "output differs between the contended and the sequential order");
                else if (run_o.trace != seq_o.trace) viol("C16", "contention-changes-handlers", "handler trace differs between the contended and the sequential order");
                else if (run_o.final != seq_o.final) viol("C16", "contention-changes-state", "final parser state differs between the contended and the sequential order");
                DSET("waiting_function_contender_cells", (uint64_t)(ops[at].type * 1000 + cont_op.type * 40 + fsc + 1));
                if (fsc != 0) nontrivial(hash_u64((uint64_t)(k * 2 + 7), hash_u64((uint64_t)CUR_CASE, CUR_SEED ^ 0xC0)));
        }
        if (sample_wanted()) sample_printf("history of %d API calls with %ld lock calls: %ld faulty runs (every lock and every unlock failing once) all equal to the fault-free twin; output %zu bytes", nops, K, 2 * K, ref_o.n);
}
int main(int argc, char **argv) { MY_PROP = "C16"; PROG_NAME = "chk_C16"; return verif_main(argc, argv); }
