/* C15 — cat_service returns OK only when quiescent, and always gets there (bounded progress).
 * Monitors (engine.c): probe call with reads refused after every OK; OK never returned while the harness's
 * event model (accepted - finished) is non-zero; after all stimulus stops the OK is reached within a linear bound. */
#include "engine.h"

const char *CHK_RULE = "one case = one history (sweep: every position of an immediately-failing event in a queue of good events, both event kinds; random: generated "
                       "table/lines with heavy event traffic incl. events that fail at once, holds, NEXT chains, partial last lines); non-trivial = cat_service returned OK at "
                       "least once with work having been done before; distinct by (OK returns, events accepted, table size, input length, schedule)";
static char mode[100];
void chk_describe(FILE *f) { fprintf(f, "%s\n", mode); eng_describe(f); }

static cat_return_state dataok_policy(struct hcall *h) { (void)h; return CAT_RETURN_STATE_DATA_OK; }
/* sweep: queue filled with k events, the one at position p fails immediately (defect 3 shape) */
static long n_sweep(void) { long n = 0; for (int k = 1; k <= QCAP; k++) n += k * 4; return n; }
static void sweep_case(long item)
{
        int k = 1, p = 0, var;
        for (k = 1; k <= QCAP; k++) { if (item < k * 4) break; item -= k * 4; }
        p = (int)(item / 4); var = (int)(item % 4);
        snprintf(mode, sizeof mode, "sweep: %d queued events, event #%d fails immediately (variant %d)", k, p, var);
        w_begin();
        struct cat_command *arr = w_group(3, false);
        arr[0].name = xstr("+GOOD"); { struct cat_variable *v = w_vars(&arr[0], 1); v->type = CAT_VAR_UINT_DEC; uint8_t *d = w_vdata(v, 1); *d = 7; }
        arr[1].name = xstr("+NOTHING");                                     /* READ event: nothing readable, no handler -> fails at once */
        arr[2].name = xstr("+LONGNAMETHATDOESNOTFITINTOTHEEVENTBUFFER"); arr[2].read = h_read; arr[2].test = h_test;  /* name does not fit the event buffer */
        w_buffers(64, false, 24);
        w_init((int)(var & 1));
        in_reset();
        if (var & 2) in_puts("AT+GOOD?\n");
        sch_eager(&RS); sch_eager(&WS);
        eng_monitors_install();
        ENG_POLICY_OVERRIDE = dataok_policy; EP.p_handler_trigger = 0;
        for (int i = 0; i < k; i++) {
                if (i == p) eng_trigger((var & 1) ? 2 : 1, (var & 1) ? CAT_CMD_TYPE_TEST : CAT_CMD_TYPE_READ);
                else eng_trigger(0, (i & 1) ? CAT_CMD_TYPE_TEST : CAT_CMD_TYPE_READ);
        }
        long B = eng_progress_bound(), used = 0; bool quiet = false;
        for (; used < B; used++) { cat_status s = svc(); eng_after_service(s); if (case_failed()) break; if (s == CAT_STATUS_OK && INPOS >= INLEN) { quiet = true; break; } }
        if (!quiet && !case_failed()) viol("C15", "no-quiescence", "no OK within %ld calls", B);
        if (quiet && PU.units != k - 1) viol("C13", "events-lost", "%ld event units for %d good events", PU.units, k - 1);
        nontrivial(hash_u64((uint64_t)(k * 64 + p * 4 + var), 9));
        ENG_POLICY_OVERRIDE = NULL;
}
/* sweep 2: tables around 2^8 commands (counters and indices that walk the whole table per typed character must not wrap) */
static const int BIG[] = { 254, 255, 256, 257, 300, 319 };
static void sweep_big(long item)
{
        int n = BIG[item % 6]; bool shared = (item / 6) & 1;
        snprintf(mode, sizeof mode, "sweep: table of %d commands", n);
        w_begin();
        int done = 0; char nm[16];
        for (int g = 0; g < 3; g++) {
                int cnt = g == 2 ? n - done : n / 3;
                struct cat_command *a = w_group((size_t)cnt, false);
                for (int j = 0; j < cnt; j++, done++) { snprintf(nm, sizeof nm, "+K%03d", done); a[j].name = xstr(nm); a[j].run = h_run; a[j].read = h_read; if (done % 7 == 0) a[j].disable = true; }
        }
        size_t cap = w_min_cap() + 24;
        w_buffers(shared ? cap * 2 : cap, shared, 24);
        w_init((int)(item & 1));
        in_reset(); snprintf(nm, sizeof nm, "AT+K%03d\n", n - 1); in_puts(nm); in_puts("AT+K00\nAT+K001?\n");
        sch_eager(&RS); sch_eager(&WS);
        eng_monitors_install();
        ENG_POLICY_OVERRIDE = dataok_policy; EP.p_handler_trigger = 0;
        eng_trigger(1, CAT_CMD_TYPE_READ);
        long B = eng_progress_bound(), used = 0; bool quiet = false;
        for (; used < B; used++) { cat_status s = svc(); eng_after_service(s); if (case_failed()) break; if (s == CAT_STATUS_OK && INPOS >= INLEN) { quiet = true; break; } }
        if (!quiet && !case_failed()) viol("C15", "no-quiescence", "table of %d commands: no OK within %ld calls (%zu of %zu input bytes consumed)", n, B, INPOS, INLEN);
        if (quiet && RESULT_CODES != 3) viol("C01", "final-count", "%ld result codes for 3 lines", RESULT_CODES);
        nontrivial(hash_u64((uint64_t)item, 255));
        CNT("big_table_cases");
        ENG_POLICY_OVERRIDE = NULL;
}
struct case_budget chk_budget(const char *tier)
{
        struct case_budget b = { n_sweep() + 12, strcmp(tier, "thorough") == 0 ? 4000000 : 120000 };
        return b;
}
void chk_run_case(uint64_t seed, long c, bool is_sweep)
{
        (void)seed;
        eng_default_profile();
        if (is_sweep) { if (c < n_sweep()) sweep_case(c); else sweep_big(c - n_sweep()); return; }
        if (chance(4)) EP.max_cmds = 300;
        snprintf(mode, sizeof mode, "random history");
        EP.p_event_step = 40 + rn(200); EP.p_handler_trigger = 25; EP.p_hold = 10; EP.p_backpressure = 60; EP.p_cut = 60;
        bool mx = chance(15);
        if (mx) { NEXT_WORLD_USE_MUTEX = true; EP.p_handler_trigger = 0; }      /* a mutex interface whose unlock fails once, somewhere in the history */
        eng_gen_table();
        NEXT_WORLD_USE_MUTEX = false;
        if (mx) { MX_FAIL_UNLOCK_AT = (long)rn(400); CNT("histories_with_one_failing_unlock"); }
        eng_gen_input(rn(9));
        if (chance(30) && INLEN > 0) { INLEN -= 1 + rn(INLEN > 6 ? 6 : (unsigned)INLEN); }     /* stream ends in a partial line: quiescence in a reading state */
        eng_random_schedules();
        long ok0 = ctr_get("service_ok_returns"), ea0 = ctr_get("events_accepted");
        eng_run_history();
        long oks = ctr_get("service_ok_returns") - ok0;
        if (oks > 0) { uint64_t h = hash_u64((uint64_t)oks, 4); h = hash_u64((uint64_t)(ctr_get("events_accepted") - ea0), h); h = hash_u64(W.ncmds, h); h = hash_u64(INLEN, h); h = hash_u64((uint64_t)(RS.mode * 2 + WS.mode), h); nontrivial(h); }
        if (sample_wanted()) { char b[300]; fmt_bytes(b, sizeof b, INB, INLEN > 80 ? 80 : INLEN); sample_printf("queue %d, %zu commands, input \"%s\", %lld events accepted: %ld OK returns, each probed", QCAP, W.ncmds, b, ctr_get("events_accepted") - ea0, oks); }
}
int main(int argc, char **argv) { MY_PROP = "C15"; PROG_NAME = "chk_C15"; return verif_main(argc, argv); }
