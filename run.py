#!/usr/bin/env python3
"""Orchestration for the cAT runtime-verification harness (see DESIGN.md).

  run.py check <ID> [--tier quick|thorough]     decide one property on /repo's working tree
  run.py replay <replay-file>                    re-run one recorded case verbosely
  run.py selftest-mutants [--only NAME] [--props C01,C02]   sensitivity of the monitors (mutants/mutants.json)
  run.py setup                                   smoke-compile the harness

Python only builds, shards, aggregates and writes evidence; generators, monitors and
reference models are C and run in the same process as cat.c (harness/).
Exit codes: 0 property held on everything explored, 1 violation (VIOLATION lines), 2 machinery failure.
"""
import json, os, shutil, struct, subprocess, sys, time, signal
from concurrent.futures import ThreadPoolExecutor

ROOT = os.path.dirname(os.path.abspath(__file__))
HARN = os.path.join(ROOT, 'harness')
REPO = os.environ.get('VERIF_REPO', '/repo')
NCPU = int(os.environ.get('VERIF_JOBS', '16'))
COMMON = ['common.c', 'refmodel.c']

BASE_FLAGS = ['-O1', '-g', '-DCAT_VERIF', '-I' + os.path.join(REPO, 'src'), '-I' + HARN, '-Wall', '-Wno-unused-function']
SAN_FLAGS = ['-fsanitize=address,undefined', '-fno-sanitize-recover=all', '-fno-omit-frame-pointer']

# ----------------------------------------------------------------------------- check table
# progs: list of (program, [queue capacities]) ; floors: counter -> minimum observed or the run is "nothing observed" (exit 2)
CHECKS = {}
def check(pid, **kw):
    CHECKS[pid] = kw

ENG = ['engine.c']
check('C01', fuzz=True, progs=[('chk_C01', [1, 2])], level='exploration', extra=ENG,
      floors={'objects_reinitialised_while_held': 300, 'disable_flags_toggled_mid_history': 10000, 'result_codes': 5000, 'lines_err_ambiguous': 100, 'lines_err_args_too_long': 50, 'lines_blank': 50, 'holds_released_and_answered': 50, 'list_units': 100, 'lore_sequences_swept': 20, 'lines_with_terminal_lore_sequences': 5000, 'worlds_with_adjacent_group_arrays': 10000, 'full_queries_answered_full': 5000})
check('C02', progs=[('chk_C02', [1])], level='exploration', floors={'flag_value_cases': 24, 'typed_names_with_the_case_bit_twin_of_a_non_letter': 5000, 'groups_starting_where_the_previous_array_ends': 5000, 'api_queries_between_service_calls': 100000, 'commands_with_an_empty_variable_table': 10000, 'objects_with_a_previous_life': 1000, 'lines': 1000, 'abbreviated_lines': 100, 'ambiguous_lines': 50, 'implicit_write_lines': 50})
def c04_oracle_selftest(variants, seed):
    """cross-check the digit-string numeric oracle against Python's arbitrary-precision int (20k numerals per run)"""
    import random
    rnd = random.Random(seed * 7919 + 13)
    edges = [0, 1, 127, 128, 255, 256, 32767, 32768, 65535, 65536, 2**31 - 1, 2**31, 2**32 - 1, 2**32, 2**63 - 1, 2**63, 2**64 - 1, 2**64, 2**64 + 5, 10 * 2**64 + 7, 16 * 2**64 + 5, 10**30]
    lines, expect = [], []
    for _ in range(20000):
        t = rnd.randrange(3); size = rnd.choice([1, 2, 4, 1, 2, 4, 3, 8])
        v = (rnd.choice(edges) + rnd.randrange(-2, 3)) if rnd.random() < 0.6 else rnd.getrandbits(rnd.randrange(1, 90))
        v = abs(v)
        if rnd.random() < 0.05: v = int(''.join(rnd.choice('0123456789') for _ in range(rnd.randrange(20, 70))))
        zeros = '0' * (rnd.randrange(30) if rnd.random() < 0.2 else 0)
        if t == 2:
            text = '0' + rnd.choice('xX') + zeros + (('%x' if rnd.random() < 0.5 else '%X') % v)
            ok = size in (1, 2, 4) and v < 256 ** size; val = v
        else:
            sign = rnd.choice(['', '', '-', '+']) if t == 0 else (rnd.choice(['+', '-']) if rnd.random() < 0.03 else '')
            text = sign + zeros + str(v)
            if t == 0:
                sv = -v if sign == '-' else v
                ok = size in (1, 2, 4) and -(1 << (8 * size - 1)) <= sv <= (1 << (8 * size - 1)) - 1; val = sv % (256 ** size) if ok else 0
            else:
                ok = size in (1, 2, 4) and sign == '' and v < 256 ** size; val = v
        if rnd.random() < 0.04:
            text = text + rnd.choice(['x', '_', '-', '.', 'g']); ok = False
            if t == 2 and text[-1] in 'abcdefABCDEF': continue
        lines.append('%d %d %s' % (t, size, text)); expect.append((1 if ok else 0, val if ok else 0))
    r = subprocess.run([variants[0]['bin'], '--oracle-selftest'], input='\n'.join(lines) + '\n', capture_output=True, text=True)
    got = [tuple(int(x) for x in l.split()) for l in r.stdout.splitlines()]
    bad = [(l, e, g) for l, e, g in zip(lines, expect, got) if e != g]
    if len(got) != len(expect) or bad:
        log('MACHINERY FAILURE: numeric oracle disagrees with Python int on %d of %d numerals, e.g. %s' % (len(bad), len(expect), bad[:3])); sys.exit(2)
    return {'oracle_selftest_numerals_agreeing_with_python_int': len(expect)}

ARGS = ['argcheck.c']
check('C04', progs=[('chk_C04', [1])], level='exploration', extra=ARGS, pre=c04_oracle_selftest,
      floors={'numeric_variables_that_held_a_value_with_the_same_low_half': 3000, 'numeric_variables_that_already_held_the_written_value': 3000, 'lines_after_a_request_served_under_other_access_flags': 10000, 'implicit_write_lines_with_an_equals_sign_in_front_of_the_arguments': 2000, 'lines_one_or_more_bytes_too_long': 3000, 'lines_to_an_implicit_write_command': 5000, 'lines_judged': 50000, 'numeric_fields_accepted': 10000, 'numeric_fields_rejected': 10000},
      assume=['the digit-string numeric oracle agrees with Python int on 20k numerals drawn on this run (checked, see coverage)'])
check('C05', progs=[('chk_C05', [1])], level='exploration', extra=ARGS,
      floors={'lines_after_a_request_served_under_other_access_flags': 10000, 'implicit_write_lines_with_an_equals_sign_in_front_of_the_arguments': 2000, 'lines_one_or_more_bytes_too_long': 3000, 'lines_to_an_implicit_write_command': 5000, 'events_raised_while_the_line_ends': 3000, 'lines_judged': 50000, 'buffer_fields_accepted': 10000, 'buffer_fields_rejected': 10000, 'arguments_filling_variable_exactly': 1000, 'arguments_one_past_the_variable': 1000})
check('C06', progs=[('chk_C06', [1, 2])], level='exploration',
      floors={'write_lines_at_capacity_boundary': 20000, 'overlong_lines': 10000, 'read_test_pairs': 10000, 'write_lines_to_a_test_only_command': 5000, 'holds_started_by_an_event_in_the_middle_of_a_write_line': 2000, 'shared_buffer_descriptors_with_a_left_over_event_buffer_size': 2000})
check('C07', progs=[('chk_C07', [1])], level='exploration', floors={'multi_row_reads': 5000, 'round_trips_with_read_only_variables_in_the_list': 5000, 'round_trips_of_a_later_row': 3000, 'round_trips': 50000, 'round_trips_at_exact_capacity': 5000})
check('C08', progs=[('chk_C08', [1, 2])], level='exploration', extra=ENG,
      floors={'commands_sharing_a_variable_table': 2000, 'variable_callbacks_failing': 1000, 'twin_pairs': 20000, 'gating_lines': 20000, 'read_only_snapshot_comparisons': 1000000, 'write_only_positions_checked_zero': 1000, 'complete_write_lines_to_a_command_of_more_than_32_variables': 3000})
check('C09', progs=[('chk_C09', [1])], level='exploration',
      floors={'api_queries_between_service_calls': 100000, 'lines': 100000, 'lines_touching_a_disabled_command': 20000, 'command_flag_flips': 10000, 'group_flag_flips': 3000, 'lines_executed': 20000, 'list_lines_checked': 10000, 'lines_with_terminal_lore_sequences': 10000, 'handler_chains': 5000, 'empty_response_parts': 1000, 'commands_disabled_right_after_being_served': 20000, 'groups_starting_where_the_previous_array_ends': 5000})
check('C10', progs=[('chk_C10', [1, 2])], level='exploration',
      floors={'overflow_cells': 3000, 'sequences_with_a_bystander_event': 5000, 'automatic_texts_one_or_two_bytes_too_long': 1000, 'sequences': 20000, 'command_lists': 500, 'handler_invocations_checked': 50000, 'return_values_outside_the_enumeration': 10000, 'release_requests_from_a_handler_of_a_command_that_is_not_held': 10000, 'service_calls_made_while_the_cell_is_held': 1000, 'read_cells_on_write_only_variables': 1000})
check('C11', fuzz=True, progs=[('chk_C11', [1, 2, 3, 8])], level='exploration', extra=ENG,
      floors={'histories_with_contention': 500, 'contended_steps_event_holds_line': 1000, 'contended_steps_cmd_holds_line': 1000, 'event_units': 1000, 'cmd_data_units': 500, 'list_units': 200, 'write_refusals': 10000})
check('C12', progs=[('chk_C12', [1, 2])], level='exploration', extra=ENG,
      floors={'schedule_variants_run': 20000, 'refused_read_steps_compared': 50000, 'scenarios_with_events': 2000, 'scenarios_without_events': 2000})
check('C13', progs=[('chk_C13', [1, 2, 3, 8])], level='exploration',
      floors={'event_variable_reads_failing': 10000, 'triggers_accepted': 100000, 'triggers_refused': 100000, 'queries_compared': 100000, 'events_failed_at_once': 10000, 'histories_with_wraparound': 1000, 'tables_whose_failing_command_has_an_overlong_description': 5000, 'bounded_drains_while_a_command_is_held': 3000, 'holds_entered_after_a_first_response_part': 2000})
check('C14', fuzz=True, progs=[('chk_C14', [1, 2, 3])], level='exploration', extra=ENG,
      floors={'triggers_between_a_release_request_and_the_next_service_call': 5000, 'reinit_while_held_cases': 16, 'releases_with_other_nonzero_status': 2000, 'objects_reinitialised_while_held': 300, 'holds_with_input_queued': 200, 'holds_released_and_answered': 500, 'releases_by_api': 100, 'releases_by_event_handler': 50, 'events_triggered_during_hold': 100, 'spurious_hold_exits': 200})
check('C15', fuzz=True, progs=[('chk_C15', [1, 2, 3, 8])], level='exploration', extra=ENG,
      floors={'quiescence_probes': 5000, 'progress_measurements': 500, 'events_accepted': 5000, 'full_queries_answered_full': 50000})
check('C18', fuzz=True, progs=[('chk_C18', [1, 2, 3])], level='exploration', extra=ENG,
      floors={'histories_with_a_mutex_interface': 5000, 'disable_flags_toggled_mid_history': 50000, 'busy_samples_inside_event_unit': 5000, 'busy_samples_with_open_unit': 20000, 'is_busy_idle_answers': 2000, 'is_hold_samples': 50000, 'holds_entered': 100})

check('C19', progs=[('chk_C19', [1])], level='exploration',
      floors={'test_handlers_rewriting_the_text_before_NEXT': 2000, 'test_events_while_the_command_machine_is_answering': 1000, 'test_texts_compared': 10000, 'test_texts_at_exact_fit': 2000, 'test_texts_one_short': 2000, 'lists_compared': 10000, 'lists_with_a_line_that_does_not_fit': 2000, 'dispatcher_cross_checks': 50000, 'test_events': 10000})
check('C20', progs=[('chk_C20', [1])], level='exploration', extra=ENG,
      floors={'objects_with_a_previous_life': 5000, 'worlds_with_a_second_parser_instance': 5000, 'streams': 10000, 'units_style_checked': 50000, 'units_crlf': 10000})

check('C16', progs=[('chk_C16', [2, 3])], level='fault_enumeration', extra=ENG,
      floors={'contended_runs': 15000, 'faulty_runs': 20000, 'lock_faults': 10000, 'unlock_faults': 10000, 'engine_histories_with_mutex': 5000, 'brackets_checked_in_engine_histories': 500000, 'api_calls_by_another_party_while_a_handler_runs': 2000},
      evaluations_from=['faulty_runs', 'contended_runs', 'fault_free_histories', 'engine_histories_with_mutex'])

# ----------------------------------------------------------------------------- helpers
def log(*a):
    print(*a, flush=True)

def load_known():
    p = os.environ.get('VERIF_KNOWN_FINDINGS', os.path.join(ROOT, 'known_findings.json'))     # the override exists for testing the mechanism only
    if not os.path.exists(p):
        return []
    return json.load(open(p)).get('findings', [])

_PROBE = {}
def probe_flags():
    """-DVERIF_NO_OBJECT_INVARIANTS when struct cat_object lacks a field the structural invariants read (see harness/probe_fields.c)"""
    if 'f' not in _PROBE:
        r = subprocess.run(['gcc', '-fsyntax-only', '-I' + os.path.join(REPO, 'src'), os.path.join(HARN, 'probe_fields.c')], capture_output=True, text=True)
        _PROBE['f'] = [] if r.returncode == 0 else ['-DVERIF_NO_OBJECT_INVARIANTS']
        if _PROBE['f']: log('note: struct cat_object lacks a field the structural invariants read; they are switched off for this run')
    return _PROBE['f']

def compiler_cmd(cc, flags, prog, qcap, out, extra):
    flags = flags + probe_flags()
    srcs = [os.path.join(HARN, prog + '.c')] + [os.path.join(HARN, s) for s in COMMON + extra if os.path.exists(os.path.join(HARN, s))]
    return [cc] + flags + ['-DCAT_UNSOLICITED_CMD_BUFFER_SIZE=%d' % qcap] + srcs + [os.path.join(REPO, 'src', 'cat.c'), '-o', out, '-lm']

def build_variants(bdir, variants):
    """variants: list of dict(prog,qcap,cc,flags,tag,extra). Returns list with 'bin' filled. Raises on compile error."""
    os.makedirs(bdir, exist_ok=True)
    def one(v):
        out = os.path.join(bdir, '%s-%s-q%d' % (v['prog'], v['tag'], v['qcap']))
        cmd = compiler_cmd(v['cc'], v['flags'], v['prog'], v['qcap'], out, v.get('extra', []))
        r = subprocess.run(cmd, capture_output=True, text=True)
        if r.returncode != 0:
            raise RuntimeError('compile failed: %s\n%s' % (' '.join(cmd), r.stderr[-4000:]))
        v['bin'] = out
        return v
    with ThreadPoolExecutor(NCPU) as ex:
        return list(ex.map(one, variants))

def run_info(v, tier):
    r = subprocess.run([v['bin'], '--info', '--tier', tier], capture_output=True, text=True)
    return json.loads(r.stdout)

class Agg:
    def __init__(self):
        self.cases = 0; self.inconclusive = []; self.counters = {}; self.distinct = {}; self.hashes = set()
        self.pairs = set(); self.trans = set(); self.samples = []; self.violations = []; self.viol_total = 0
        self.foreign = {}; self.io = {}; self.hc = {'cmd': [0, 0, 0, 0], 'event': [0, 0, 0, 0], 'var_read': 0, 'var_write': 0}
        self.cpu_s = 0.0; self.sanitizer_reports = []
    def add(self, d, hashfile):
        self.cases += d['cases']; self.cpu_s += d['wall_s']; self.viol_total += d['violations_total']
        if d['inconclusive']:
            self.inconclusive.append({'count': d['inconclusive'], 'why': d['inconclusive_why'], 'prog': d['prog'], 'qcap': d['qcap']})
        for k, v in d['counters'].items(): self.counters[k] = self.counters.get(k, 0) + v
        for k, v in d['distinct'].items(): self.distinct[k] = self.distinct.get(k, 0) + v   # upper bound; nontrivial is unioned exactly below
        for k, v in d['foreign_keys'].items(): self.foreign[k] = self.foreign.get(k, 0) + v
        for k, v in d['io'].items(): self.io[k] = self.io.get(k, 0) + v
        for k in ('cmd', 'event'):
            self.hc[k] = [a + b for a, b in zip(self.hc[k], d['handler_calls'][k])]
        self.hc['var_read'] += d['handler_calls']['var_read']; self.hc['var_write'] += d['handler_calls']['var_write']
        self.pairs.update(d['state_pairs']); self.trans.update(d['transitions'])
        if len(self.samples) < 8: self.samples.extend(d['samples'][:2])
        self.violations.extend(d['violations'])
        if hashfile and os.path.exists(hashfile):
            b = open(hashfile, 'rb').read()
            if len(self.hashes) < 6_000_000:
                self.hashes.update(struct.unpack('<%dQ' % (len(b) // 8), b))
            os.unlink(hashfile)

def run_shards(variants, tier, seed, wdir, replay_dir, scale=1, san=False, timeout=3600, env_extra=None, max_cases=None):
    """Run every variant's case space split into chunks over NCPU workers. Returns Agg."""
    os.makedirs(wdir, exist_ok=True); os.makedirs(replay_dir, exist_ok=True)
    jobs = []
    for v in variants:
        info = run_info(v, tier)
        sweep, rnd = info['sweep'], info['random'] * scale // max(1, v.get('div', 1))
        if max_cases is not None:
            rnd = min(rnd, max_cases)
        total = sweep + rnd
        v['cases_planned'] = total
        nchunks = max(1, min(total, max(1, (NCPU * 3) // max(1, len(variants)))))
        step = (total + nchunks - 1) // nchunks
        for i in range(0, total, step):
            jobs.append((v, i, min(total, i + step)))
    agg = Agg()
    env = dict(os.environ)
    env['ASAN_OPTIONS'] = 'abort_on_error=0:detect_leaks=0:halt_on_error=1:exitcode=77:allocator_may_return_null=1'
    env['UBSAN_OPTIONS'] = 'print_stacktrace=1:halt_on_error=1:exitcode=77'
    env['MSAN_OPTIONS'] = 'exitcode=77'
    if env_extra: env.update(env_extra)
    def one(job):
        v, a, b = job
        results = []
        cur = a
        hang_retried = set()
        while cur < b:
            tag = '%s-q%d-%d' % (os.path.basename(v['bin']), v['qcap'], cur)
            outf = os.path.join(wdir, tag + '.json'); hashf = os.path.join(wdir, tag + '.hash'); progf = os.path.join(wdir, tag + '.prog')
            cmd = [v['bin'], '--seed', str(seed), '--tier', tier, '--from', str(cur), '--to', str(b), '--out', outf, '--hashes', hashf,
                   '--progress', progf, '--replaydir', replay_dir] + (['--san'] if san else [])
            try:
                r = subprocess.run(cmd, capture_output=True, text=True, errors='replace', env=env, timeout=timeout)
                rc, err = r.returncode, r.stderr
            except subprocess.TimeoutExpired as e:
                rc, err = -999, 'shard timeout'
            if rc in (0, 1) and os.path.exists(outf):
                results.append(('ok', json.load(open(outf)), hashf))
                os.unlink(outf)
                break
            # abnormal end: find the case that was running
            at = cur
            try:
                at = struct.unpack('<q', open(progf, 'rb').read(8))[0]
            except Exception:
                pass
            if at < cur: at = cur
            kind = 'hang' if rc in (3, -999) else 'sanitizer' if rc == 77 else 'crash(rc=%d)' % rc
            if kind == 'hang' and at not in hang_retried:
                hang_retried.add(at)     # re-run once before reporting a hang
                cur = at
                continue
            results.append(('abnormal', {'prog': v['prog'], 'qcap': v['qcap'], 'case': at, 'kind': kind, 'stderr': err[-6000:], 'bin': v['bin'], 'tag': v['tag']}, None))
            cur = at + 1
            if sum(1 for r in results if r[0] == 'abnormal') >= 6:
                break          # this chunk keeps dying: enough witnesses, do not restart thousands of processes
        return results
    with ThreadPoolExecutor(NCPU) as ex:
        for res in ex.map(one, jobs):
            for kind, d, hf in res:
                if kind == 'ok':
                    agg.add(d, hf)
                else:
                    agg.sanitizer_reports.append(d) if d['kind'] == 'sanitizer' else agg.inconclusive.append({'count': 1, 'why': '%s in %s q%d case %d' % (d['kind'], d['prog'], d['qcap'], d['case']), 'prog': d['prog'], 'qcap': d['qcap'], 'case': d['case'], 'stderr': d['stderr'][-800:]})
                    agg.cases += 1
    return agg

def report_and_exit(pid, tier, seed, level, agg, t0, floors, rule, assumptions, extra_cov=None, extra_viol=None, evaluations=None):
    known = load_known()
    viols = list(agg.violations) + (extra_viol or [])
    new, knownhits = [], {}
    for v in viols:
        fk = '%s/%s' % (v['prop'], v['key'])
        hit = [k for k in known if k.get('status') == 'known' and k.get('property') == v['prop'] and k.get('key') == fk]
        if hit:
            knownhits[fk] = hit[0]
        else:
            new.append(v)
    for fk, k in knownhits.items():
        log('KNOWN-FINDING: property=%s %s' % (pid, k.get('what', fk)))
    seen = set()
    for v in new:
        log('VIOLATION property=%s replay=%s' % (pid, v.get('replay') or '(none)'))
        if v['key'] not in seen:
            seen.add(v['key'])
            log('  key=%s/%s case=%s: %s' % (v['prop'], v['key'], v.get('case'), v.get('msg', '')[:300]))
    ninc = sum(i['count'] for i in agg.inconclusive)
    cov = {
        'evaluations': evaluations if evaluations is not None else agg.cases,
        'distinct_nontrivial': len(agg.hashes),
        'rule': rule,
        'samples': agg.samples[:8] or ['(none recorded)'],
        'inconclusive_cases': ninc,
        'inconclusive_detail': agg.inconclusive[:10],
        'counters': agg.counters,
        'io_events': agg.io,
        'handler_calls': agg.hc,
        'distinct_sets_upper_bound': {k: v for k, v in agg.distinct.items() if k != 'nontrivial'},
        'fsm_state_pairs_visited': len(agg.pairs),
        'fsm_transitions_visited': len(agg.trans),
        'other_property_monitor_hits_ignored': agg.foreign,
        'cpu_s': round(agg.cpu_s, 2),
    }
    if extra_cov: cov.update(extra_cov)
    # floors: "nothing observed" is never reported as "held"
    short = {k: (agg.counters.get(k, 0), f) for k, f in floors.items() if agg.counters.get(k, 0) < f}
    ev = {'property_id': pid, 'tier': tier, 'seed': seed, 'level': level, 'coverage': cov, 'assumptions': assumptions,
          'wall_s': round(time.time() - t0, 2), 'violations': len(new), 'known_findings_hit': sorted(knownhits)}
    os.makedirs(os.path.join(ROOT, 'evidence'), exist_ok=True)
    json.dump(ev, open(os.path.join(ROOT, 'evidence', pid + '.json'), 'w'), indent=1)
    log('%s %s: %d cases, %d distinct non-trivial, %d inconclusive, %d violation record(s), %.1fs' % (pid, tier, agg.cases, len(agg.hashes), ninc, len(new), time.time() - t0))
    if new:
        sys.exit(1)
    if short and not viols:
        log('INCONCLUSIVE: observed too little: %s' % short)
        sys.exit(2)
    if agg.cases and ninc * 50 > agg.cases:
        log('INCONCLUSIVE: %d of %d cases crashed or hung' % (ninc, agg.cases))
        sys.exit(2)
    sys.exit(0)

def gcov_coverage(bdir, progs, seed, tier, max_random=20000):
    """Reach evidence: replay (part of) each program's workload on a gcov build of cat.c; union of executed lines."""
    gdir = os.path.join(bdir, 'gcov'); os.makedirs(gdir, exist_ok=True)
    def one(pe):
        prog, q, extra = pe
        d = os.path.join(gdir, '%s-q%d' % (prog, q)); os.makedirs(d, exist_ok=True)
        out = os.path.join(d, 'chk')
        cmd = compiler_cmd('gcc', ['-O0', '-g', '--coverage', '-DCAT_VERIF', '-I' + os.path.join(REPO, 'src'), '-I' + HARN], prog, q, out, extra)
        r = subprocess.run(cmd, capture_output=True, text=True)
        if r.returncode: return None
        info = json.loads(subprocess.run([out, '--info', '--tier', tier], capture_output=True, text=True).stdout)
        to = info['sweep'] + min(info['random'], max_random)
        subprocess.run([out, '--seed', str(seed), '--tier', tier, '--san', '--to', str(to), '--out', os.path.join(d, 'o.json')], capture_output=True, text=True, timeout=3600)
        subprocess.run(['gcov', '-b', 'chk-cat.gcda'], capture_output=True, text=True, cwd=d)
        f = os.path.join(d, 'cat.c.gcov')
        if not os.path.exists(f): return None
        lines = {}
        for l in open(f, errors='replace'):
            parts = l.split(':', 2)
            if len(parts) < 3: continue
            cnt, no = parts[0].strip(), parts[1].strip()
            if not no.isdigit() or cnt == '-': continue
            lines[int(no)] = 0 if cnt.startswith('#') or cnt.startswith('=') else 1
        return lines
    with ThreadPoolExecutor(NCPU) as ex:
        res = [r for r in ex.map(one, progs) if r]
    if not res: return {'gcov': 'unavailable'}
    allno = sorted(set().union(*[set(r) for r in res]))
    hit = [n for n in allno if any(r.get(n) for r in res)]
    miss = [n for n in allno if n not in set(hit)]
    shutil.rmtree(gdir, ignore_errors=True)
    return {'cat_c_line_coverage': {'executable_lines': len(allno), 'executed': len(hit), 'percent': round(100.0 * len(hit) / max(1, len(allno)), 2), 'unreached_line_numbers': miss[:200], 'programs_replayed_on_gcov_build': len(res)}}

ASSUME = ['descriptors stay inside the supported domain of the property quantifier (DESIGN.md 3.2)',
          'the CAT_VERIF hook only reports phase/dequeue/finish and does not change behaviour',
          'gcc -O1 build of cat.c behaves like the shipped build for defined behaviour']

# a second build configuration of the library for every behavioural check: what a release build for a typical target of this library looks like
# (assert() compiled out, optimiser on, plain char unsigned as on ARM / PowerPC).  It runs the whole sweep and a quarter of the random budget.
RELEASE_FLAGS = [f for f in BASE_FLAGS if f != '-O1'] + ['-O2', '-DNDEBUG', '-funsigned-char', '-DVERIF_BUILD_TAG="release"']
def plain_variants(cfg):
    out = []
    for prog, caps in cfg['progs']:
        for q in caps:
            out.append({'prog': prog, 'qcap': q, 'cc': 'gcc', 'flags': BASE_FLAGS, 'tag': 'plain', 'extra': cfg.get('extra', [])})
        out.append({'prog': prog, 'qcap': caps[-1], 'cc': 'gcc', 'flags': RELEASE_FLAGS, 'tag': 'release', 'extra': cfg.get('extra', []), 'div': 4})
    return out

def do_check(pid, tier):
    t0 = time.time()
    seed = int(os.environ.get('VERIF_SEED', '1'))
    if pid not in CHECKS:
        log('unknown property', pid); sys.exit(2)
    cfg = CHECKS[pid]
    if 'custom' in cfg:
        return cfg['custom'](pid, tier, seed, t0)
    bdir = os.path.join(ROOT, 'build', pid)
    shutil.rmtree(bdir, ignore_errors=True)
    try:
        variants = build_variants(bdir, plain_variants(cfg))
    except RuntimeError as e:
        log(str(e)); sys.exit(2)
    extra_cov = cfg['pre'](variants, seed) if 'pre' in cfg else None
    agg = run_shards(variants, tier, seed, os.path.join(bdir, 'work'), os.path.join(ROOT, 'evidence', 'replay'), scale=cfg.get('scale', {}).get(tier, 1))
    rule = run_info(variants[0], tier).get('rule', 'see DESIGN.md section 5, ' + pid)
    shutil.rmtree(os.path.join(bdir, 'work'), ignore_errors=True)
    extra_viol = []
    if tier == 'thorough' and cfg.get('fuzz'):
        extra_cov = dict(extra_cov or {}); extra_cov.update(fuzz_campaign(pid, bdir, seed, extra_viol, os.path.join(ROOT, 'evidence', 'replay'), runs=1600000))
    if tier == 'thorough':
        extra_cov = dict(extra_cov or {}); extra_cov.update(gcov_coverage(bdir, [(p, caps[0], cfg.get('extra', [])) for p, caps in cfg['progs']], seed, 'quick'))
    evals = sum(agg.counters.get(k, 0) for k in cfg['evaluations_from']) if 'evaluations_from' in cfg else None
    report_and_exit(pid, tier, seed, cfg['level'], agg, t0, cfg.get('floors', {}), rule, ASSUME + cfg.get('assume', []), extra_cov=extra_cov, evaluations=evals, extra_viol=extra_viol)


# ----------------------------------------------------------------------------- C17: threads + ThreadSanitizer
def c17_custom(pid, tier, seed, t0):
    bdir = os.path.join(ROOT, 'build', pid); shutil.rmtree(bdir, ignore_errors=True); os.makedirs(bdir)
    rdir = os.path.join(ROOT, 'evidence', 'replay'); os.makedirs(rdir, exist_ok=True)
    src = [os.path.join(HARN, 'mt_stress.c'), os.path.join(REPO, 'src', 'cat.c')]
    thorough = tier == 'thorough'
    compilers = [('gcc', 'gcc')] + ([('clang', 'clang')] if thorough else [])
    bins = {}
    def comp(job):
        cc, tag, q, flags = job
        out = os.path.join(bdir, 'mt-%s-q%d' % (tag, q))
        r = subprocess.run([cc, '-O1', '-g'] + flags + ['-DCAT_VERIF', '-DCAT_UNSOLICITED_CMD_BUFFER_SIZE=%d' % q, '-I' + os.path.join(REPO, 'src')] + src + ['-o', out, '-lpthread'], capture_output=True, text=True)
        if r.returncode: raise RuntimeError('compile failed: ' + r.stderr[-2000:])
        bins[(tag, q)] = out
    jobs = [(cc, tag, q, ['-fsanitize=thread']) for cc, tag in compilers for q in (1, 2, 3, 8)] + ([('gcc', 'plain', q, []) for q in (2,)] if thorough else [])
    try:
        with ThreadPoolExecutor(NCPU) as ex: list(ex.map(comp, jobs))
    except RuntimeError as e:
        log(str(e)); sys.exit(2)
    nseeds = 40 if thorough else 3
    triggers = 20000
    runs = [(tag, q, P, seed * 1000 + k) for tag in [t for _, t in compilers] for q in (1, 2, 3, 8) for P in (1, 2, 4, 8) for k in range(nseeds)]
    # every third run uses a mutex whose lock() gives up under contention (returns failure): the call must then do nothing at all
    timed = {r: (i % 3 == 2) for i, r in enumerate(runs)}
    env = dict(os.environ, TSAN_OPTIONS='halt_on_error=1:exitcode=66:second_deadlock_stack=1')
    results, viols, inconc = [], [], []
    def one(r):
        tag, q, P, sd = r
        cmd = [bins[(tag, q)], '--seed', str(sd), '--producers', str(P), '--triggers', str(triggers), '--timedlock', '1' if timed[r] else '0']
        try:
            pr = subprocess.run(cmd, capture_output=True, text=True, env=env, timeout=600)
        except subprocess.TimeoutExpired:
            return ('inconclusive', r, 'timeout')
        if pr.returncode == 66 or 'WARNING: ThreadSanitizer' in pr.stderr:
            return ('race', r, pr.stderr)
        if pr.returncode in (0, 1):
            try: return ('ok' if pr.returncode == 0 else 'mismatch', r, json.loads(pr.stdout.strip().splitlines()[-1]))
            except Exception: return ('inconclusive', r, 'unparsable output: ' + pr.stdout[-200:] + pr.stderr[-300:])
        return ('inconclusive', r, 'rc=%d %s' % (pr.returncode, pr.stderr[-300:]))
    with ThreadPoolExecutor(max(2, NCPU // 3)) as ex:      # each run has up to 9 threads
        outs = list(ex.map(one, runs))
    agg = Agg(); tot = {}
    import re
    for kind, r, d in outs:
        tag, q, P, sd = r
        agg.cases += 1
        if kind in ('ok', 'mismatch'):
            for k, v in d.items():
                if isinstance(v, int) and k not in ('producers', 'cap', 'seed', 'triggers_per_producer'): tot[k] = tot.get(k, 0) + v
            if d['handovers'] > 0 and d['refused_full'] > 0: agg.hashes.add(hash((tag, q, P, sd)))
            if len(agg.samples) < 6 and P >= 2: agg.samples.append('%s-tsan, capacity %d, %d producers x %d triggers, seed %d: accepted %d == delivered %d, %d refused (BUFFER_FULL), %d lock hand-overs between threads, %d contended lock attempts' % (tag, q, P, triggers, sd, d['accepted'], d['delivered'], d['refused_full'], d['handovers'], d['contended_locks']))
            if kind == 'mismatch' or d.get('bad_lockfree', 0):
                path = os.path.join(rdir, 'C17-mt_stress-%s-q%d-P%d-s%d.txt' % (tag, q, P, sd))
                open(path, 'w').write(json.dumps({'prog': 'mt_stress', 'tag': tag, 'qcap': q, 'producers': P, 'seed': sd, 'triggers': triggers, 'prop': 'C17'}) + '\n' + json.dumps(d, indent=1))
                key = ('line-torn-on-the-wire' if d.get('wire_torn', 0) else 'event-line-corrupted' if d.get('event_lines_bad', 0) else 'unlock-by-non-owner' if d.get('unlock_errors', 0) else 'state-changed-while-another-thread-held-the-mutex' if d.get('frozen_violations', 0) else
                       'api-status-not-a-documented-one' if d.get('odd_status', 0) else ('accepted-not-delivered' if any(x[0] > x[2] for x in d['per_producer']) else 'delivered-not-accepted') if d.get('producers_with_mismatch', 0) else 'lock-free-query-wrong')
                viols.append({'prop': 'C17', 'key': key, 'case': '%s q%d P%d seed %d' % (tag, q, P, sd), 'msg': 'per producer [accepted, refused, delivered] = %s; unlock errors %d, frozen-state violations %d of %d checks' % (d['per_producer'], d.get('unlock_errors', 0), d.get('frozen_violations', 0), d.get('frozen_checks', 0)), 'replay': path})
        elif kind == 'race':
            funcs = re.findall(r'#\d+ (\w+) .*cat\.c', d)
            key = 'data-race:' + (funcs[0] if funcs else 'unknown')
            path = os.path.join(rdir, 'C17-mt_stress-%s-q%d-P%d-s%d.txt' % (tag, q, P, sd))
            open(path, 'w').write(json.dumps({'prog': 'mt_stress', 'tag': tag, 'qcap': q, 'producers': P, 'seed': sd, 'triggers': triggers, 'prop': 'C17'}) + '\n' + d[-12000:])
            viols.append({'prop': 'C17', 'key': key, 'case': '%s q%d P%d seed %d' % (tag, q, P, sd), 'msg': 'ThreadSanitizer report with a frame in cat.c: ' + ', '.join(funcs[:4]), 'replay': path})
        else:
            agg.inconclusive.append({'count': 1, 'why': str(d)[:300], 'prog': 'mt_stress', 'qcap': q})
    extra = {'thread_runs': len(runs), 'totals': tot, 'sanitizer_builds': [t for _, t in compilers]}
    if thorough:   # helgrind on a reduced plain run
        hr = subprocess.run(['valgrind', '--tool=helgrind', '--error-exitcode=67', '-q', bins[('plain', 2)], '--seed', str(seed), '--producers', '2', '--triggers', '300'], capture_output=True, text=True, timeout=1800)
        extra['helgrind'] = {'rc': hr.returncode, 'reports_with_cat_frames': hr.stderr.count('cat.c')}
        if hr.returncode == 67 and 'cat.c' in hr.stderr:
            path = os.path.join(rdir, 'C17-helgrind-s%d.txt' % seed); open(path, 'w').write(json.dumps({'prog': 'mt_stress', 'tag': 'helgrind', 'prop': 'C17'}) + '\n' + hr.stderr[-12000:])
            viols.append({'prop': 'C17', 'key': 'helgrind-report', 'case': 'helgrind', 'msg': 'helgrind report with a frame in cat.c', 'replay': path})
    agg.counters = {'lock_handovers': tot.get('handovers', 0), 'buffer_full_answers': tot.get('refused_full', 0), 'triggers_accepted': tot.get('accepted', 0), 'events_delivered': tot.get('delivered', 0),
                    'contended_lock_attempts': tot.get('contended_locks', 0), 'holds_entered': tot.get('holds_entered', 0), 'lock_calls': tot.get('lock_calls', 0),
                    'lock_failures_injected_by_timed_mutex': tot.get('lock_failures', 0), 'runs_with_failing_lock': sum(1 for r in runs if timed[r]),
                    'bystander_checks_parser_state_frozen_under_its_lock': tot.get('frozen_checks', 0), 'variable_read_callbacks_failing': tot.get('var_read_failures', 0), 'event_handler_chains_next_data_next': tot.get('event_handler_chains', 0), 'wire_torn': tot.get('wire_torn', 0)}
    rule = 'one case = one multi-threaded run (service thread + 1/2/4/8 producer threads x %d triggers each, real pthread mutex, randomised yields between API calls; command traffic incl. holds and command lists, failing variable callbacks; a bystander thread that takes the mutex and checks that the parser object does not change meanwhile; error-checking mutex) under ThreadSanitizer for one queue capacity and seed; non-trivial = the lock changed hands between threads and at least one trigger was refused with BUFFER_FULL; distinct by (build, capacity, producers, seed)' % triggers
    shutil.rmtree(bdir, ignore_errors=True)
    report_and_exit(pid, tier, seed, 'exploration', agg, t0, {'lock_handovers': 1000, 'buffer_full_answers': 100, 'triggers_accepted': 1000, 'lock_failures_injected_by_timed_mutex': 100}, rule,
                    ['ThreadSanitizer decides only the interleavings that occurred in these runs', 'harness counters are C11 atomics; the hand-over counter is protected by the cAT mutex itself',
                     'the two documented lock-free queries are called from the service thread only'], extra_cov=extra, extra_viol=viols)

check('C17', custom=c17_custom, progs=[('mt_stress', [1, 2, 3, 8])], level='exploration')

# ----------------------------------------------------------------------------- C03: sanitizers over every generator
C03_REPLAY = [  # (program, capacities, extra sources, divisor of the random budget)
    ('chk_C03', [1, 2, 3, 8], ['engine.c'], 1), ('chk_C01', [2], ['engine.c'], 12), ('chk_C02', [1], [], 12), ('chk_C04', [1], ['argcheck.c'], 16), ('chk_C05', [1], ['argcheck.c'], 16),
    ('chk_C06', [2], [], 12), ('chk_C07', [1], [], 24), ('chk_C08', [2], ['engine.c'], 12), ('chk_C09', [1], [], 12), ('chk_C10', [2], [], 12), ('chk_C11', [3], ['engine.c'], 12),
    ('chk_C12', [2], ['engine.c'], 24), ('chk_C13', [1, 3], [], 12), ('chk_C14', [2], ['engine.c'], 12), ('chk_C15', [8], ['engine.c'], 12), ('chk_C16', [2], ['engine.c'], 16), ('chk_C18', [2], ['engine.c'], 12),
    ('chk_C19', [1], [], 12), ('chk_C20', [1], ['engine.c'], 12)]

def san_key(stderr):
    import re
    m = re.search(r'ERROR: AddressSanitizer: ([\w-]+)', stderr) or re.search(r'(MemorySanitizer: [\w-]+)', stderr)
    kind = m.group(1) if m else ('ubsan' if 'runtime error' in stderr else 'sanitizer')
    if kind == 'ubsan':
        m2 = re.search(r'runtime error: ([^\n]{0,60})', stderr); kind = 'ubsan:' + (re.sub(r'[^a-z ]', '', m2.group(1).lower()).strip().replace(' ', '-')[:40] if m2 else '')
    f = re.search(r'#\d+ 0x[0-9a-f]+ in (\w+) [^\n]*cat\.c', stderr) or re.search(r'cat\.c:(\d+)', stderr)
    return '%s:%s' % (kind, f.group(1) if f else 'unknown')

def c03_custom(pid, tier, seed, t0):
    bdir = os.path.join(ROOT, 'build', pid); shutil.rmtree(bdir, ignore_errors=True)
    rdir = os.path.join(ROOT, 'evidence', 'replay')
    thorough = tier == 'thorough'
    def mk(cc, flags, tag, only=None):
        return [{'prog': p, 'qcap': q, 'cc': cc, 'flags': BASE_FLAGS + flags, 'tag': tag, 'extra': ex, 'div': d} for p, caps, ex, d in C03_REPLAY for q in caps if only is None or p in only]
    sets = [('gcc-asan-ubsan', mk('gcc', SAN_FLAGS, 'gccasan')),
            # the release configuration of the library (asserts compiled out, plain char unsigned) under the same sanitizers, for the boundary workload and the argument decoders
            ('gcc-asan-ubsan-release-config', mk('gcc', SAN_FLAGS + ['-DNDEBUG', '-funsigned-char', '-DVERIF_BUILD_TAG="release"'], 'gccasanrel', only=['chk_C03', 'chk_C04', 'chk_C05', 'chk_C06', 'chk_C19']))]
    if thorough:
        sets.append(('clang-asan-ubsan', mk('clang', SAN_FLAGS + ['-fno-sanitize=object-size'], 'clangasan')))
        sets.append(('clang-msan', mk('clang', ['-fsanitize=memory', '-fsanitize-memory-track-origins', '-fno-omit-frame-pointer', '-DVERIF_MSAN=1'], 'msan', only=['chk_C03', 'chk_C01', 'chk_C06', 'chk_C10', 'chk_C13', 'chk_C19'])))
    total = Agg(); viols = []; used = []
    for name, variants in sets:
        try:
            variants = build_variants(os.path.join(bdir, name), variants)
        except RuntimeError as e:
            log(str(e)); sys.exit(2)
        agg = run_shards(variants, tier, seed, os.path.join(bdir, name, 'work'), rdir, san=True, timeout=7200)
        used.append({'build': name, 'programs': len(variants), 'cases': agg.cases})
        for rep in agg.sanitizer_reports:
            key = san_key(rep['stderr'])
            path = os.path.join(rdir, 'C03-%s-%s-q%d-s%d-c%d.txt' % (rep['prog'], rep['tag'], rep['qcap'], seed, rep['case']))
            open(path, 'w').write(json.dumps({'prog': rep['prog'], 'qcap': rep['qcap'], 'seed': seed, 'case': rep['case'], 'tier': tier, 'prop': 'C03', 'key': key, 'san': 1}) + '\n' + rep['stderr'])
            viols.append({'prop': 'C03', 'key': key, 'case': '%s q%d case %d (%s)' % (rep['prog'], rep['qcap'], rep['case'], name), 'msg': rep['stderr'].strip().splitlines()[0][:300] if rep['stderr'].strip() else 'sanitizer exit', 'replay': path})
        # merge
        total.cases += agg.cases; total.cpu_s += agg.cpu_s; total.hashes |= agg.hashes; total.pairs |= agg.pairs; total.trans |= agg.trans
        for k, v in agg.counters.items(): total.counters[k] = total.counters.get(k, 0) + v
        for k, v in agg.io.items(): total.io[k] = total.io.get(k, 0) + v
        for k in ('cmd', 'event'): total.hc[k] = [a + b for a, b in zip(total.hc[k], agg.hc[k])]
        total.hc['var_read'] += agg.hc['var_read']; total.hc['var_write'] += agg.hc['var_write']
        total.samples.extend(agg.samples[:3]); total.violations.extend(agg.violations); total.inconclusive.extend(agg.inconclusive)
        for k, v in agg.foreign.items(): total.foreign[k] = total.foreign.get(k, 0) + v
    extra = {'sanitizer_builds': used, 'replayed_generators': sorted({p for p, _, _, _ in C03_REPLAY})}
    if thorough:
        extra.update(gcov_coverage(bdir, [(p, caps[0], ex) for p, caps, ex, _ in C03_REPLAY], seed, 'quick'))
        extra.update(c03_memcheck(bdir, seed, viols, rdir))
        extra.update(c03_fuzz(bdir, seed, viols, rdir))
    rule = run_info(sets[0][1][0], tier).get('rule', '')
    rule += ' || additionally every other property\'s generator (chk_C01..chk_C20) is replayed on the same sanitizer builds with its own monitors muted'
    shutil.rmtree(bdir, ignore_errors=True)
    report_and_exit(pid, tier, seed, 'exploration', total, t0, {'tiny_event_buffer_cases': 2048, 'disable_flags_toggled_mid_history': 100000, 'commands_with_an_empty_variable_table': 10000, 'objects_with_a_previous_life': 5000, 'half_compares': 1000000, 'cases_touching_last_byte_of_command_buffer': 10000, 'cases_touching_last_byte_of_event_buffer': 3000}, rule,
                    ASSUME + ['red-zone sanitizers see adjacent overflows only; the border between the two halves of a shared buffer is covered by the hook-based half comparison',
                              'assert() failures inside cat.c are defined behaviour and counted inconclusive, not violations'], extra_cov=extra, extra_viol=viols)

def c03_memcheck(bdir, seed, viols, rdir):
    v = build_variants(os.path.join(bdir, 'memcheck'), [{'prog': 'chk_C03', 'qcap': 2, 'cc': 'gcc', 'flags': BASE_FLAGS, 'tag': 'plain', 'extra': ['engine.c']}])[0]
    info = run_info(v, 'quick'); lo = info['sweep']
    r = subprocess.run(['valgrind', '-q', '--error-exitcode=68', '--track-origins=yes', v['bin'], '--seed', str(seed), '--tier', 'quick', '--san', '--from', str(lo), '--to', str(lo + 4000)], capture_output=True, text=True, timeout=7200)
    if r.returncode == 68:
        path = os.path.join(rdir, 'C03-memcheck-s%d.txt' % seed); open(path, 'w').write(json.dumps({'prog': 'chk_C03', 'qcap': 2, 'seed': seed, 'prop': 'C03', 'key': 'memcheck', 'san': 1, 'case': lo, 'tier': 'quick'}) + '\n' + r.stderr[-12000:])
        viols.append({'prop': 'C03', 'key': 'memcheck:' + ('cat.c' if 'cat.c' in r.stderr else 'harness'), 'case': 'memcheck', 'msg': r.stderr.strip().splitlines()[0][:200], 'replay': path})
    return {'memcheck': {'cases': 4000, 'rc': r.returncode}}

def fuzz_campaign(pid, bdir, seed, viols, rdir, runs=2000000):
    """libFuzzer drives the engine's generator decisions; the monitors of property `pid` are fatal (thorough tier only)."""
    fd = os.path.join(bdir, 'fuzz'); os.makedirs(fd, exist_ok=True)
    out = os.path.join(fd, 'fuzz_target')
    srcs = [os.path.join(HARN, x) for x in ('fuzz_target.c', 'common.c', 'refmodel.c', 'engine.c')] + [os.path.join(REPO, 'src', 'cat.c')]
    r = subprocess.run(['clang', '-O1', '-g', '-fsanitize=fuzzer,address,undefined', '-fno-sanitize-recover=all', '-fno-sanitize=object-size', '-DCAT_VERIF', '-DCAT_UNSOLICITED_CMD_BUFFER_SIZE=2', '-DVERIF_FUZZ=1',
                        '-I' + os.path.join(REPO, 'src'), '-I' + HARN] + srcs + ['-o', out], capture_output=True, text=True)
    if r.returncode: log('fuzz target does not compile: ' + r.stderr[-1500:]); sys.exit(2)
    corpus = os.path.join(fd, 'corpus'); os.makedirs(corpus, exist_ok=True)
    env = dict(os.environ, ASAN_OPTIONS='detect_leaks=0:quarantine_size_mb=8', VERIF_FUZZ_PROP=pid)
    try:
        subprocess.run([out, corpus, '-runs=%d' % (runs // NCPU), '-jobs=%d' % NCPU, '-workers=%d' % NCPU, '-max_len=600', '-seed=%d' % seed, '-artifact_prefix=' + fd + '/', '-print_final_stats=1'],
                       capture_output=True, text=True, cwd=fd, env=env, timeout=5400)
    except subprocess.TimeoutExpired:
        return {'libfuzzer': 'timeout (inconclusive)'}
    crashes = [f for f in os.listdir(fd) if f.startswith(('crash-', 'timeout-', 'oom-'))]
    import re
    execs = 0
    for f in os.listdir(fd):
        if f.startswith('fuzz-') and f.endswith('.log'):
            m = re.findall(r'stat::number_of_executed_units: (\d+)', open(os.path.join(fd, f), errors='replace').read())
            if m: execs += int(m[-1])
    for c in crashes[:5]:
        rr = subprocess.run([out, os.path.join(fd, c)], capture_output=True, text=True, env=env)
        path = os.path.join(rdir, '%s-fuzz-%s' % (pid, c)); shutil.copy(os.path.join(fd, c), path)
        m = re.search(r'VIOLATION (C\d\d)/([\w-]+): ([^\n]*)', rr.stderr)
        key = m.group(2) if m else san_key(rr.stderr)
        viols.append({'prop': pid, 'key': 'fuzz:' + key, 'case': c, 'msg': (m.group(3) if m else (rr.stderr.strip().splitlines() or ['crash'])[-1])[:300], 'replay': path})
    return {'libfuzzer': {'executions': execs, 'corpus_files': len(os.listdir(corpus)), 'artifacts': len(crashes), 'fatal_monitors': pid}}

def c03_fuzz(bdir, seed, viols, rdir):
    return fuzz_campaign('C03', bdir, seed, viols, rdir, runs=16000000)

check('C03', custom=c03_custom, progs=[(p, c) for p, c, _, _ in C03_REPLAY], level='exploration')

# ----------------------------------------------------------------------------- replay
def do_replay(path):
    base = os.path.basename(path)
    if '-fuzz-' in base:      # libFuzzer artifact: rebuild the fuzz front-end and run it on the artifact with that property's monitors fatal
        pid = base.split('-fuzz-')[0]
        bdir = os.path.join(ROOT, 'build', 'replay'); shutil.rmtree(bdir, ignore_errors=True); os.makedirs(bdir)
        out = os.path.join(bdir, 'fuzz_target')
        srcs = [os.path.join(HARN, x) for x in ('fuzz_target.c', 'common.c', 'refmodel.c', 'engine.c')] + [os.path.join(REPO, 'src', 'cat.c')]
        subprocess.check_call(['clang', '-O1', '-g', '-fsanitize=fuzzer,address,undefined', '-fno-sanitize-recover=all', '-fno-sanitize=object-size', '-DCAT_VERIF', '-DCAT_UNSOLICITED_CMD_BUFFER_SIZE=2',
                               '-I' + os.path.join(REPO, 'src'), '-I' + HARN] + srcs + ['-o', out])
        r = subprocess.run([out, path], env=dict(os.environ, ASAN_OPTIONS='detect_leaks=0', VERIF_FUZZ_PROP=pid))
        log('exit', r.returncode, '(non-zero = violation reproduced)'); sys.exit(1 if r.returncode else 0)
    hdr = json.loads(open(path).readline())
    pid = hdr['prop']
    if hdr.get('prog') == 'mt_stress':
        bdir = os.path.join(ROOT, 'build', 'replay'); shutil.rmtree(bdir, ignore_errors=True); os.makedirs(bdir)
        out = os.path.join(bdir, 'mt'); cc = 'clang' if hdr.get('tag') == 'clang' else 'gcc'
        subprocess.check_call([cc, '-O1', '-g', '-fsanitize=thread', '-DCAT_VERIF', '-DCAT_UNSOLICITED_CMD_BUFFER_SIZE=%d' % hdr.get('qcap', 2), '-I' + os.path.join(REPO, 'src'), os.path.join(HARN, 'mt_stress.c'), os.path.join(REPO, 'src', 'cat.c'), '-o', out, '-lpthread'])
        bad = 0
        for k in range(5):    # thread schedules are not replayable (no rr here): repeat the same workload a few times
            r = subprocess.run([out, '--seed', str(hdr.get('seed', 1)), '--producers', str(hdr.get('producers', 4)), '--triggers', str(hdr.get('triggers', 20000))], env=dict(os.environ, TSAN_OPTIONS='halt_on_error=1:exitcode=66'))
            bad += r.returncode != 0
        log('runs with a report or mismatch: %d of 5' % bad); sys.exit(1 if bad else 0)
    extras = {p: ex for p, _, ex, _ in C03_REPLAY}.get(hdr['prog'], [])
    bdir = os.path.join(ROOT, 'build', 'replay')
    shutil.rmtree(bdir, ignore_errors=True)
    flags = (RELEASE_FLAGS if hdr.get('build') == 'release' else BASE_FLAGS) + (SAN_FLAGS if hdr.get('san') else [])
    v = build_variants(bdir, [{'prog': hdr['prog'], 'qcap': hdr['qcap'], 'cc': 'gcc', 'flags': flags, 'tag': 'replay', 'extra': extras}])[0]
    cmd = [v['bin'], '--seed', str(hdr['seed']), '--tier', hdr['tier'], '--case', str(hdr['case'])] + (['--san'] if hdr.get('san') else [])
    log('replaying:', ' '.join(cmd))
    r = subprocess.run(cmd)
    log('exit', r.returncode, '(1 = violation reproduced)')
    if hdr.get('san') and r.returncode not in (0, 1): sys.exit(1)      # the sanitizer stopped the process: reproduced
    sys.exit(r.returncode if r.returncode in (0, 1) else 2)

def do_setup():
    bdir = os.path.join(ROOT, 'build', 'setup')
    shutil.rmtree(bdir, ignore_errors=True)
    try:
        vs = build_variants(bdir, [{'prog': 'chk_C02', 'qcap': 1, 'cc': 'gcc', 'flags': BASE_FLAGS, 'tag': 'plain', 'extra': []}])
        r = subprocess.run([vs[0]['bin'], '--info'], capture_output=True, text=True)
        assert r.returncode == 0, r.stderr
    except Exception as e:
        log('setup failed:', e); sys.exit(2)
    shutil.rmtree(bdir, ignore_errors=True)
    log('setup ok')

def main():
    a = sys.argv[1:]
    if not a:
        log(__doc__); sys.exit(2)
    if a[0] == 'check':
        tier = os.environ.get('VERIF_TIER', 'quick')
        if '--tier' in a: tier = a[a.index('--tier') + 1]
        do_check(a[1], tier)
    elif a[0] == 'replay':
        do_replay(a[1])
    elif a[0] == 'setup':
        do_setup()
    elif a[0] == 'selftest-mutants':
        import mutants_runner
        mutants_runner.main(a[1:])
    else:
        log(__doc__); sys.exit(2)

if __name__ == '__main__':
    main()
