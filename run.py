#!/usr/bin/env python3
"""Orchestration for the cAT runtime-verification harness (see DESIGN.md).

  run.py check <ID> [--tier quick|thorough]     decide one property on /repo's working tree
  run.py replay <replay-file>                    re-run one recorded case verbosely
  run.py selftest-mutants [--only NAME] [--props C01,C02]   sensitivity of the monitors (mutants/mutants.json)
  run.py setup                                   smoke-compile the harness

Python only builds, shards, aggregates and writes evidence; generators, monitors and
reference models are C and run in the same process as cat.c (harness/).
Exit codes: 0 property held on everything explored, 1 violation (VIOLATION lines), 2 machinery failure.
"""
import json, os, shutil, struct, subprocess, sys, time, signal
from concurrent.futures import ThreadPoolExecutor

ROOT = os.path.dirname(os.path.abspath(__file__))
HARN = os.path.join(ROOT, 'harness')
REPO = os.environ.get('VERIF_REPO', '/repo')
NCPU = int(os.environ.get('VERIF_JOBS', '16'))
COMMON = ['common.c', 'refmodel.c']

BASE_FLAGS = ['-O1', '-g', '-DCAT_VERIF', '-I' + os.path.join(REPO, 'src'), '-I' + HARN, '-Wall', '-Wno-unused-function']
SAN_FLAGS = ['-fsanitize=address,undefined', '-fno-sanitize-recover=all', '-fno-omit-frame-pointer']

# ----------------------------------------------------------------------------- check table
# progs: list of (program, [queue capacities]) ; floors: counter -> minimum observed or the run is "nothing observed" (exit 2)
CHECKS = {}
def check(pid, **kw):
    CHECKS[pid] = kw

ENG = ['engine.c']
check('C01', progs=[('chk_C01', [1, 2])], level='exploration', extra=ENG,
      floors={'result_codes': 5000, 'lines_err_ambiguous': 100, 'lines_err_args_too_long': 50, 'lines_blank': 50, 'holds_released_and_answered': 50, 'list_units': 100})
check('C02', progs=[('chk_C02', [1])], level='exploration', floors={'lines': 1000, 'abbreviated_lines': 100, 'ambiguous_lines': 50, 'implicit_write_lines': 50})
def c04_oracle_selftest(variants, seed):
    """cross-check the digit-string numeric oracle against Python's arbitrary-precision int (20k numerals per run)"""
    import random
    rnd = random.Random(seed * 7919 + 13)
    edges = [0, 1, 127, 128, 255, 256, 32767, 32768, 65535, 65536, 2**31 - 1, 2**31, 2**32 - 1, 2**32, 2**63 - 1, 2**63, 2**64 - 1, 2**64, 2**64 + 5, 10 * 2**64 + 7, 16 * 2**64 + 5, 10**30]
    lines, expect = [], []
    for _ in range(20000):
        t = rnd.randrange(3); size = rnd.choice([1, 2, 4, 1, 2, 4, 3, 8])
        v = (rnd.choice(edges) + rnd.randrange(-2, 3)) if rnd.random() < 0.6 else rnd.getrandbits(rnd.randrange(1, 90))
        v = abs(v)
        if rnd.random() < 0.05: v = int(''.join(rnd.choice('0123456789') for _ in range(rnd.randrange(20, 70))))
        zeros = '0' * (rnd.randrange(30) if rnd.random() < 0.2 else 0)
        if t == 2:
            text = '0' + rnd.choice('xX') + zeros + (('%x' if rnd.random() < 0.5 else '%X') % v)
            ok = size in (1, 2, 4) and v < 256 ** size; val = v
        else:
            sign = rnd.choice(['', '', '-', '+']) if t == 0 else (rnd.choice(['+', '-']) if rnd.random() < 0.03 else '')
            text = sign + zeros + str(v)
            if t == 0:
                sv = -v if sign == '-' else v
                ok = size in (1, 2, 4) and -(1 << (8 * size - 1)) <= sv <= (1 << (8 * size - 1)) - 1; val = sv % (256 ** size) if ok else 0
            else:
                ok = size in (1, 2, 4) and sign == '' and v < 256 ** size; val = v
        if rnd.random() < 0.04:
            text = text + rnd.choice(['x', '_', '-', '.', 'g']); ok = False
            if t == 2 and text[-1] in 'abcdefABCDEF': continue
        lines.append('%d %d %s' % (t, size, text)); expect.append((1 if ok else 0, val if ok else 0))
    r = subprocess.run([variants[0]['bin'], '--oracle-selftest'], input='\n'.join(lines) + '\n', capture_output=True, text=True)
    got = [tuple(int(x) for x in l.split()) for l in r.stdout.splitlines()]
    bad = [(l, e, g) for l, e, g in zip(lines, expect, got) if e != g]
    if len(got) != len(expect) or bad:
        log('MACHINERY FAILURE: numeric oracle disagrees with Python int on %d of %d numerals, e.g. %s' % (len(bad), len(expect), bad[:3])); sys.exit(2)
    return {'oracle_selftest_numerals_agreeing_with_python_int': len(expect)}

ARGS = ['argcheck.c']
check('C04', progs=[('chk_C04', [1])], level='exploration', extra=ARGS, pre=c04_oracle_selftest,
      floors={'lines_judged': 50000, 'numeric_fields_accepted': 10000, 'numeric_fields_rejected': 10000},
      assume=['the digit-string numeric oracle agrees with Python int on 20k numerals drawn on this run (checked, see coverage)'])
check('C05', progs=[('chk_C05', [1])], level='exploration', extra=ARGS,
      floors={'lines_judged': 50000, 'buffer_fields_accepted': 10000, 'buffer_fields_rejected': 10000, 'arguments_filling_variable_exactly': 1000, 'arguments_one_past_the_variable': 1000})
check('C06', progs=[('chk_C06', [1, 2])], level='exploration',
      floors={'write_lines_at_capacity_boundary': 20000, 'overlong_lines': 10000, 'read_test_pairs': 10000})
check('C07', progs=[('chk_C07', [1])], level='exploration', floors={'round_trips': 50000, 'round_trips_at_exact_capacity': 5000})
check('C08', progs=[('chk_C08', [1, 2])], level='exploration', extra=ENG,
      floors={'twin_pairs': 20000, 'gating_lines': 20000, 'read_only_snapshot_comparisons': 1000000, 'write_only_positions_checked_zero': 1000})
check('C09', progs=[('chk_C09', [1])], level='exploration',
      floors={'lines': 100000, 'lines_touching_a_disabled_command': 20000, 'command_flag_flips': 10000, 'group_flag_flips': 3000, 'lines_executed': 20000, 'list_lines_checked': 10000})
check('C10', progs=[('chk_C10', [1, 2])], level='exploration',
      floors={'sequences': 20000, 'command_lists': 500, 'handler_invocations_checked': 50000})
check('C11', progs=[('chk_C11', [1, 2, 3, 8])], level='exploration', extra=ENG,
      floors={'histories_with_contention': 500, 'contended_steps_event_holds_line': 1000, 'contended_steps_cmd_holds_line': 1000, 'event_units': 1000, 'cmd_data_units': 500, 'list_units': 200, 'write_refusals': 10000})
check('C12', progs=[('chk_C12', [1, 2])], level='exploration', extra=ENG,
      floors={'schedule_variants_run': 20000, 'refused_read_steps_compared': 50000, 'scenarios_with_events': 2000, 'scenarios_without_events': 2000})
check('C13', progs=[('chk_C13', [1, 2, 3, 8])], level='exploration',
      floors={'triggers_accepted': 100000, 'triggers_refused': 100000, 'queries_compared': 100000, 'events_failed_at_once': 10000, 'histories_with_wraparound': 1000})
check('C14', progs=[('chk_C14', [1, 2])], level='exploration', extra=ENG,
      floors={'holds_with_input_queued': 200, 'holds_released_and_answered': 500, 'releases_by_api': 100, 'releases_by_event_handler': 50, 'events_triggered_during_hold': 100, 'spurious_hold_exits': 200})
check('C15', progs=[('chk_C15', [1, 2, 3, 8])], level='exploration', extra=ENG,
      floors={'quiescence_probes': 5000, 'progress_measurements': 500, 'events_accepted': 5000})
check('C18', progs=[('chk_C18', [1, 2, 3])], level='exploration', extra=ENG,
      floors={'busy_samples_inside_event_unit': 5000, 'busy_samples_with_open_unit': 20000, 'is_busy_idle_answers': 2000, 'is_hold_samples': 50000, 'holds_entered': 100})

check('C19', progs=[('chk_C19', [1])], level='exploration',
      floors={'test_texts_compared': 10000, 'test_texts_at_exact_fit': 2000, 'test_texts_one_short': 2000, 'lists_compared': 10000, 'lists_with_a_line_that_does_not_fit': 2000, 'dispatcher_cross_checks': 50000, 'test_events': 10000})
check('C20', progs=[('chk_C20', [1])], level='exploration', extra=ENG,
      floors={'streams': 10000, 'units_style_checked': 50000, 'units_crlf': 10000})

# ----------------------------------------------------------------------------- helpers
def log(*a):
    print(*a, flush=True)

def load_known():
    p = os.path.join(ROOT, 'known_findings.json')
    if not os.path.exists(p):
        return []
    return json.load(open(p)).get('findings', [])

def compiler_cmd(cc, flags, prog, qcap, out, extra):
    srcs = [os.path.join(HARN, prog + '.c')] + [os.path.join(HARN, s) for s in COMMON + extra if os.path.exists(os.path.join(HARN, s))]
    return [cc] + flags + ['-DCAT_UNSOLICITED_CMD_BUFFER_SIZE=%d' % qcap] + srcs + [os.path.join(REPO, 'src', 'cat.c'), '-o', out, '-lm']

def build_variants(bdir, variants):
    """variants: list of dict(prog,qcap,cc,flags,tag,extra). Returns list with 'bin' filled. Raises on compile error."""
    os.makedirs(bdir, exist_ok=True)
    def one(v):
        out = os.path.join(bdir, '%s-%s-q%d' % (v['prog'], v['tag'], v['qcap']))
        cmd = compiler_cmd(v['cc'], v['flags'], v['prog'], v['qcap'], out, v.get('extra', []))
        r = subprocess.run(cmd, capture_output=True, text=True)
        if r.returncode != 0:
            raise RuntimeError('compile failed: %s\n%s' % (' '.join(cmd), r.stderr[-4000:]))
        v['bin'] = out
        return v
    with ThreadPoolExecutor(NCPU) as ex:
        return list(ex.map(one, variants))

def run_info(v, tier):
    r = subprocess.run([v['bin'], '--info', '--tier', tier], capture_output=True, text=True)
    return json.loads(r.stdout)

class Agg:
    def __init__(self):
        self.cases = 0; self.inconclusive = []; self.counters = {}; self.distinct = {}; self.hashes = set()
        self.pairs = set(); self.trans = set(); self.samples = []; self.violations = []; self.viol_total = 0
        self.foreign = {}; self.io = {}; self.hc = {'cmd': [0, 0, 0, 0], 'event': [0, 0, 0, 0], 'var_read': 0, 'var_write': 0}
        self.cpu_s = 0.0; self.sanitizer_reports = []
    def add(self, d, hashfile):
        self.cases += d['cases']; self.cpu_s += d['wall_s']; self.viol_total += d['violations_total']
        if d['inconclusive']:
            self.inconclusive.append({'count': d['inconclusive'], 'why': d['inconclusive_why'], 'prog': d['prog'], 'qcap': d['qcap']})
        for k, v in d['counters'].items(): self.counters[k] = self.counters.get(k, 0) + v
        for k, v in d['distinct'].items(): self.distinct[k] = self.distinct.get(k, 0) + v   # upper bound; nontrivial is unioned exactly below
        for k, v in d['foreign_keys'].items(): self.foreign[k] = self.foreign.get(k, 0) + v
        for k, v in d['io'].items(): self.io[k] = self.io.get(k, 0) + v
        for k in ('cmd', 'event'):
            self.hc[k] = [a + b for a, b in zip(self.hc[k], d['handler_calls'][k])]
        self.hc['var_read'] += d['handler_calls']['var_read']; self.hc['var_write'] += d['handler_calls']['var_write']
        self.pairs.update(d['state_pairs']); self.trans.update(d['transitions'])
        if len(self.samples) < 8: self.samples.extend(d['samples'][:2])
        self.violations.extend(d['violations'])
        if hashfile and os.path.exists(hashfile):
            b = open(hashfile, 'rb').read()
            if len(self.hashes) < 6_000_000:
                self.hashes.update(struct.unpack('<%dQ' % (len(b) // 8), b))
            os.unlink(hashfile)

def run_shards(variants, tier, seed, wdir, replay_dir, scale=1, san=False, timeout=3600, env_extra=None, max_cases=None):
    """Run every variant's case space split into chunks over NCPU workers. Returns Agg."""
    os.makedirs(wdir, exist_ok=True); os.makedirs(replay_dir, exist_ok=True)
    jobs = []
    for v in variants:
        info = run_info(v, tier)
        sweep, rnd = info['sweep'], info['random'] * scale // max(1, v.get('div', 1))
        if max_cases is not None:
            rnd = min(rnd, max_cases)
        total = sweep + rnd
        v['cases_planned'] = total
        nchunks = max(1, min(total, max(1, (NCPU * 3) // max(1, len(variants)))))
        step = (total + nchunks - 1) // nchunks
        for i in range(0, total, step):
            jobs.append((v, i, min(total, i + step)))
    agg = Agg()
    env = dict(os.environ)
    env['ASAN_OPTIONS'] = 'abort_on_error=0:detect_leaks=0:halt_on_error=1:exitcode=77:allocator_may_return_null=1'
    env['UBSAN_OPTIONS'] = 'print_stacktrace=1:halt_on_error=1:exitcode=77'
    env['MSAN_OPTIONS'] = 'exitcode=77'
    if env_extra: env.update(env_extra)
    def one(job):
        v, a, b = job
        results = []
        cur = a
        hang_retried = set()
        while cur < b:
            tag = '%s-q%d-%d' % (os.path.basename(v['bin']), v['qcap'], cur)
            outf = os.path.join(wdir, tag + '.json'); hashf = os.path.join(wdir, tag + '.hash'); progf = os.path.join(wdir, tag + '.prog')
            cmd = [v['bin'], '--seed', str(seed), '--tier', tier, '--from', str(cur), '--to', str(b), '--out', outf, '--hashes', hashf,
                   '--progress', progf, '--replaydir', replay_dir] + (['--san'] if san else [])
            try:
                r = subprocess.run(cmd, capture_output=True, text=True, errors='replace', env=env, timeout=timeout)
                rc, err = r.returncode, r.stderr
            except subprocess.TimeoutExpired as e:
                rc, err = -999, 'shard timeout'
            if rc in (0, 1) and os.path.exists(outf):
                results.append(('ok', json.load(open(outf)), hashf))
                os.unlink(outf)
                break
            # abnormal end: find the case that was running
            at = cur
            try:
                at = struct.unpack('<q', open(progf, 'rb').read(8))[0]
            except Exception:
                pass
            if at < cur: at = cur
            kind = 'hang' if rc in (3, -999) else 'sanitizer' if rc == 77 else 'crash(rc=%d)' % rc
            if kind == 'hang' and at not in hang_retried:
                hang_retried.add(at)     # re-run once before reporting a hang
                cur = at
                continue
            results.append(('abnormal', {'prog': v['prog'], 'qcap': v['qcap'], 'case': at, 'kind': kind, 'stderr': err[-6000:], 'bin': v['bin'], 'tag': v['tag']}, None))
            cur = at + 1
        return results
    with ThreadPoolExecutor(NCPU) as ex:
        for res in ex.map(one, jobs):
            for kind, d, hf in res:
                if kind == 'ok':
                    agg.add(d, hf)
                else:
                    agg.sanitizer_reports.append(d) if d['kind'] == 'sanitizer' else agg.inconclusive.append({'count': 1, 'why': '%s in %s q%d case %d' % (d['kind'], d['prog'], d['qcap'], d['case']), 'prog': d['prog'], 'qcap': d['qcap'], 'case': d['case'], 'stderr': d['stderr'][-800:]})
                    agg.cases += 1
    return agg

def report_and_exit(pid, tier, seed, level, agg, t0, floors, rule, assumptions, extra_cov=None, extra_viol=None):
    known = load_known()
    viols = list(agg.violations) + (extra_viol or [])
    new, knownhits = [], {}
    for v in viols:
        fk = '%s/%s' % (v['prop'], v['key'])
        hit = [k for k in known if k.get('status') == 'known' and k.get('property') == v['prop'] and k.get('key') == fk]
        if hit:
            knownhits[fk] = hit[0]
        else:
            new.append(v)
    for fk, k in knownhits.items():
        log('KNOWN-FINDING: property=%s %s' % (pid, k.get('what', fk)))
    seen = set()
    for v in new:
        log('VIOLATION property=%s replay=%s' % (pid, v.get('replay') or '(none)'))
        if v['key'] not in seen:
            seen.add(v['key'])
            log('  key=%s/%s case=%s: %s' % (v['prop'], v['key'], v.get('case'), v.get('msg', '')[:300]))
    ninc = sum(i['count'] for i in agg.inconclusive)
    cov = {
        'evaluations': agg.cases,
        'distinct_nontrivial': len(agg.hashes),
        'rule': rule,
        'samples': agg.samples[:8] or ['(none recorded)'],
        'inconclusive_cases': ninc,
        'inconclusive_detail': agg.inconclusive[:10],
        'counters': agg.counters,
        'io_events': agg.io,
        'handler_calls': agg.hc,
        'distinct_sets_upper_bound': {k: v for k, v in agg.distinct.items() if k != 'nontrivial'},
        'fsm_state_pairs_visited': len(agg.pairs),
        'fsm_transitions_visited': len(agg.trans),
        'other_property_monitor_hits_ignored': agg.foreign,
        'cpu_s': round(agg.cpu_s, 2),
    }
    if extra_cov: cov.update(extra_cov)
    # floors: "nothing observed" is never reported as "held"
    short = {k: (agg.counters.get(k, 0), f) for k, f in floors.items() if agg.counters.get(k, 0) < f}
    ev = {'property_id': pid, 'tier': tier, 'seed': seed, 'level': level, 'coverage': cov, 'assumptions': assumptions,
          'wall_s': round(time.time() - t0, 2), 'violations': len(new), 'known_findings_hit': sorted(knownhits)}
    os.makedirs(os.path.join(ROOT, 'evidence'), exist_ok=True)
    json.dump(ev, open(os.path.join(ROOT, 'evidence', pid + '.json'), 'w'), indent=1)
    log('%s %s: %d cases, %d distinct non-trivial, %d inconclusive, %d violation record(s), %.1fs' % (pid, tier, agg.cases, len(agg.hashes), ninc, len(new), time.time() - t0))
    if new:
        sys.exit(1)
    if short and not viols:
        log('INCONCLUSIVE: observed too little: %s' % short)
        sys.exit(2)
    if agg.cases and ninc * 50 > agg.cases:
        log('INCONCLUSIVE: %d of %d cases crashed or hung' % (ninc, agg.cases))
        sys.exit(2)
    sys.exit(0)

ASSUME = ['descriptors stay inside the supported domain of the property quantifier (DESIGN.md 3.2)',
          'the CAT_VERIF hook only reports phase/dequeue/finish and does not change behaviour',
          'gcc -O1 build of cat.c behaves like the shipped build for defined behaviour']

def plain_variants(cfg):
    out = []
    for prog, caps in cfg['progs']:
        for q in caps:
            out.append({'prog': prog, 'qcap': q, 'cc': 'gcc', 'flags': BASE_FLAGS, 'tag': 'plain', 'extra': cfg.get('extra', [])})
    return out

def do_check(pid, tier):
    t0 = time.time()
    seed = int(os.environ.get('VERIF_SEED', '1'))
    if pid not in CHECKS:
        log('unknown property', pid); sys.exit(2)
    cfg = CHECKS[pid]
    if 'custom' in cfg:
        return cfg['custom'](pid, tier, seed, t0)
    bdir = os.path.join(ROOT, 'build', pid)
    shutil.rmtree(bdir, ignore_errors=True)
    try:
        variants = build_variants(bdir, plain_variants(cfg))
    except RuntimeError as e:
        log(str(e)); sys.exit(2)
    extra_cov = cfg['pre'](variants, seed) if 'pre' in cfg else None
    agg = run_shards(variants, tier, seed, os.path.join(bdir, 'work'), os.path.join(ROOT, 'evidence', 'replay'), scale=cfg.get('scale', {}).get(tier, 1))
    rule = run_info(variants[0], tier).get('rule', 'see DESIGN.md section 5, ' + pid)
    shutil.rmtree(os.path.join(bdir, 'work'), ignore_errors=True)
    report_and_exit(pid, tier, seed, cfg['level'], agg, t0, cfg.get('floors', {}), rule, ASSUME + cfg.get('assume', []), extra_cov=extra_cov)

# ----------------------------------------------------------------------------- replay
def do_replay(path):
    hdr = json.loads(open(path).readline())
    pid = hdr['prop']
    cfg = None
    for p, c in CHECKS.items():
        if any(pr == hdr['prog'] for pr, _ in c.get('progs', [])):
            cfg = c
    bdir = os.path.join(ROOT, 'build', 'replay')
    shutil.rmtree(bdir, ignore_errors=True)
    flags = BASE_FLAGS + (SAN_FLAGS if hdr.get('san') else [])
    v = build_variants(bdir, [{'prog': hdr['prog'], 'qcap': hdr['qcap'], 'cc': 'gcc', 'flags': flags, 'tag': 'replay', 'extra': (cfg or {}).get('extra', [])}])[0]
    cmd = [v['bin'], '--seed', str(hdr['seed']), '--tier', hdr['tier'], '--case', str(hdr['case'])] + (['--san'] if hdr.get('san') else [])
    log('replaying:', ' '.join(cmd))
    r = subprocess.run(cmd)
    log('exit', r.returncode, '(1 = violation reproduced)')
    sys.exit(r.returncode if r.returncode in (0, 1) else 2)

def do_setup():
    bdir = os.path.join(ROOT, 'build', 'setup')
    shutil.rmtree(bdir, ignore_errors=True)
    try:
        vs = build_variants(bdir, [{'prog': 'chk_C02', 'qcap': 1, 'cc': 'gcc', 'flags': BASE_FLAGS, 'tag': 'plain', 'extra': []}])
        r = subprocess.run([vs[0]['bin'], '--info'], capture_output=True, text=True)
        assert r.returncode == 0, r.stderr
    except Exception as e:
        log('setup failed:', e); sys.exit(2)
    shutil.rmtree(bdir, ignore_errors=True)
    log('setup ok')

def main():
    a = sys.argv[1:]
    if not a:
        log(__doc__); sys.exit(2)
    if a[0] == 'check':
        tier = os.environ.get('VERIF_TIER', 'quick')
        if '--tier' in a: tier = a[a.index('--tier') + 1]
        do_check(a[1], tier)
    elif a[0] == 'replay':
        do_replay(a[1])
    elif a[0] == 'setup':
        do_setup()
    elif a[0] == 'selftest-mutants':
        import mutants_runner
        mutants_runner.main(a[1:])
    else:
        log(__doc__); sys.exit(2)

if __name__ == '__main__':
    main()
