#!/usr/bin/env python3
"""Regenerate seeded/SUMMARY.md and the table of DESIGN.md 8.2 from seeded/*/meta.json (written by seed_eval.py)."""
import json, os, re
ROOT = os.path.dirname(os.path.abspath(__file__))

def rows():
    out = []
    for n in sorted(os.listdir(os.path.join(ROOT, 'seeded'))):
        mp = os.path.join(ROOT, 'seeded', n, 'meta.json')
        if not os.path.exists(mp): continue
        m = json.load(open(mp))
        keys = []
        for t, v in sorted(m.get('checks_run', {}).items()):
            if v.get('violation'): keys += v.get('keys', [])[:3]
        out.append('| %s | %s | %s | %s | %s |' % (n, m['breaks_property'], m['status'], ','.join(m.get('caught_by', [])), '; '.join(keys[:3])))
    return out

def main():
    r = rows()
    head = ['| change | property | result | checks that fired | violation keys |', '|---|---|---|---|---|']
    table = '\n'.join(head + r) + '\n'
    st = {}
    for line in r:
        s = line.split('|')[3].strip().split(' ')[0] + (' ' + line.split('|')[3].strip().split(' ')[1] if line.split('|')[3].strip().startswith(('NOT', 'CAUGHT BY')) else '')
        st[s] = st.get(s, 0) + 1
    intro = ('# Independently seeded changes (sub-agents given only the property text and a scratch worktree)\n\n'
             'Each directory holds patch.diff, demo.c (fails with the change, passes without), agent_notes.txt (what the change needs in order to manifest) and meta.json '
             '(what was run, which checks fired, history of the evaluation).\n'
             'All of them compile with the project flags and pass the 30 baseline tests. Variants a/b: round 1 ("needs something specific to manifest"), c/d: rounds 2 and 3, '
             'e/f: round 4, g/h: round 5, i/j: round 6, k/l: round 7, m/n: round 8, o/p: round 9, q/r: round 10 (each round was told what the earlier ones had tried and asked for a different family of change).\n'
             'The table shows the state after the strengthening described in DESIGN.md 8.2 (meta.json "history" says what was missed first).\n\n'
             'Totals: %d changes; %s.\n\n' % (len(r), ', '.join('%s: %d' % kv for kv in sorted(st.items()))))
    open(os.path.join(ROOT, 'seeded', 'SUMMARY.md'), 'w').write(intro + table)
    dp = os.path.join(ROOT, 'DESIGN.md'); d = open(dp).read()
    i = d.index('| change | property | result |'); j = d.index('## 9. Log of corrections')
    d = d[:i] + table + '\n' + d[j:]
    d = re.sub(r'State after strengthening \(\d+ changes;', 'State after strengthening (%d changes;' % len(r), d)
    open(dp, 'w').write(d)
    print(len(r), st)

if __name__ == '__main__':
    main()
