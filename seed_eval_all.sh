#!/bin/bash
# Re-evaluate every seeded change in seeded/ against the quick check of its own property (and the sibling checks recorded earlier).
# Usage: ./seed_eval_all.sh [C01 C02 ...]   (all properties when none is given; build/tests/demonstration of a confirmed change are not repeated; prints one status line per change; non-zero exit if a change that was caught is now missed)
cd "$(dirname "$0")"
bad=0
for d in seeded/*/; do
  n=$(basename "$d"); p=${n%%-*}
  [ -f "$d/patch.diff" ] || continue
  if [ $# -gt 0 ]; then case " $* " in *" $p "*) ;; *) continue;; esac; fi
  checks=$(python3 -c "import json,sys; m=json.load(open('$d/meta.json')); print(','.join(sorted(set([m['breaks_property']]+m.get('caught_by',[])))))")
  was=$(python3 -c "import json; print(json.load(open('$d/meta.json'))['status'])")
  out=$(python3 seed_eval.py "$d" "$p" "$n" --checks "$checks" --skip-baseline 2>&1 | tail -2 | head -1 | cut -c1-160)
  now=$(python3 -c "import json; print(json.load(open('$d/meta.json'))['status'])")
  echo "$n was=[$was] now=[$now]"
  case "$was" in CAUGHT*) case "$now" in CAUGHT*) ;; *) bad=1; echo "  REGRESSION: $n";; esac;; esac
done
exit $bad
