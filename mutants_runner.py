"""Sensitivity self-test: apply one source mutation to a scratch copy of the repository, make sure it still
compiles and passes the repository's own test-suite, then run the quick check(s) of the property it is meant
to break (VERIF_REPO points the check at the copy) and expect a VIOLATION line.  Nothing is written to /repo.

  run.py selftest-mutants                 all mutants, each against its own property
  run.py selftest-mutants --only NAME[,NAME]
  run.py selftest-mutants --cross         additionally run every other check (specificity table)
  run.py selftest-mutants --no-baseline   skip the cmake/ctest survival step
Results are appended to mutants/results.json.
"""
import json, os, shutil, subprocess, sys, tempfile, time

ROOT = os.path.dirname(os.path.abspath(__file__))
REPO = '/repo'

def apply_mutation(src, m):
    s = open(src).read()
    for ed in m['edits']:
        old, new = ed['old'], ed['new']
        n = s.count(old)
        if n < 1:
            raise RuntimeError('pattern not found: %r' % old[:60])
        occ = ed.get('occurrence', 0)
        if occ == 'all':
            s = s.replace(old, new)
        elif occ == 'last':
            idx = s.rfind(old)
            s = s[:idx] + new + s[idx + len(old):]
        else:
            idx = -1
            for _ in range(occ + 1):
                idx = s.find(old, idx + 1)
            if idx < 0:
                raise RuntimeError('occurrence %s of pattern not found: %r' % (occ, old[:60]))
            s = s[:idx] + new + s[idx + len(old):]
    open(src, 'w').write(s)

def baseline_ok(copy):
    b = os.path.join(copy, '_b')
    r = subprocess.run(['cmake', '-G', 'Ninja', '-B', b, '-S', copy], capture_output=True, text=True)
    if r.returncode: return False, 'configure failed'
    r = subprocess.run(['cmake', '--build', b], capture_output=True, text=True)
    if r.returncode: return False, 'does not compile: ' + (r.stdout + r.stderr)[-300:]
    r = subprocess.run(['ctest', '--test-dir', b, '-j8', '--timeout', '120'], capture_output=True, text=True)
    shutil.rmtree(b, ignore_errors=True)
    if r.returncode:
        import re
        return False, 'baseline tests fail: ' + ' '.join(sorted(set(re.findall(r'(test_\w+)', ' '.join(l for l in r.stdout.splitlines() if 'Failed' in l or '***' in l)))))[:300]
    return True, 'compiles, 30/30 baseline tests pass'

def run_check(pid, copy, seed='1'):
    env = dict(os.environ, VERIF_REPO=copy, VERIF_SEED=seed, VERIF_MUTANT_RUN='1')
    t = time.time()
    r = subprocess.run([sys.executable, os.path.join(ROOT, 'run.py'), 'check', pid, '--tier', 'quick'], capture_output=True, text=True, env=env, cwd=ROOT)
    keys = sorted({l.split('key=')[1].split()[0] for l in r.stdout.splitlines() if l.strip().startswith('key=')})
    return {'rc': r.returncode, 'violation': 'VIOLATION property=' + pid in r.stdout, 'keys': keys, 'wall_s': round(time.time() - t, 1),
            'tail': r.stdout.strip().splitlines()[-1][:200] if r.stdout.strip() else r.stderr[-200:]}

def main(args):
    muts = json.load(open(os.path.join(ROOT, 'mutants', 'mutants.json')))['mutants']
    only = None; cross = '--cross' in args; nobase = '--no-baseline' in args; props = None
    if '--only' in args: only = set(args[args.index('--only') + 1].split(','))
    if '--props' in args: props = set(args[args.index('--props') + 1].split(','))
    sys.path.insert(0, ROOT)
    import run as runpy
    allprops = sorted(runpy.CHECKS)
    # evidence files are rewritten by every check run: keep the real ones aside
    evdir = os.path.join(ROOT, 'evidence'); keep = tempfile.mkdtemp(prefix='verif_ev_keep_')
    if os.path.isdir(evdir):
        for f in os.listdir(evdir):
            if f.endswith('.json'): shutil.copy(os.path.join(evdir, f), keep)
    results = []
    try:
        for m in muts:
            if only and m['name'] not in only: continue
            if props and m['property'] not in props: continue
            copy = tempfile.mkdtemp(prefix='verif_mut_')
            try:
                for d in ('src', 'tests', 'example'):
                    shutil.copytree(os.path.join(REPO, d), os.path.join(copy, d))
                shutil.copy(os.path.join(REPO, 'CMakeLists.txt'), copy)
                res = {'name': m['name'], 'property': m['property'], 'what': m.get('what', '')}
                try:
                    apply_mutation(os.path.join(copy, 'src', 'cat.c'), m)
                except RuntimeError as e:
                    res['status'] = 'stale: ' + str(e); results.append(res); print(json.dumps(res)); continue
                if not nobase:
                    ok, why = baseline_ok(copy)
                    res['baseline'] = why
                    if not ok:
                        res['status'] = 'discarded (unrealistic: ' + why + ')'; results.append(res); print(json.dumps(res)); continue
                targets = [m['property']] + m.get('also', [])
                if cross: targets = [m['property']] + [p for p in allprops if p != m['property']]
                res['checks'] = {}
                for pid in targets:
                    if pid not in runpy.CHECKS: continue
                    res['checks'][pid] = run_check(pid, copy)
                own = res['checks'].get(m['property'])
                res['status'] = 'no check yet' if own is None else 'CAUGHT' if own['violation'] else 'MISSED'
                results.append(res); print(json.dumps(res), flush=True)
            finally:
                shutil.rmtree(copy, ignore_errors=True)
    finally:
        for f in os.listdir(keep):
            shutil.copy(os.path.join(keep, f), evdir)
        shutil.rmtree(keep, ignore_errors=True)
        # replay files written for mutants are not evidence about /repo
        rd = os.path.join(evdir, 'replay')
        if os.path.isdir(rd):
            for f in os.listdir(rd):
                if os.path.getmtime(os.path.join(rd, f)) >= t_start: os.unlink(os.path.join(rd, f))
    out = os.path.join(ROOT, 'mutants', 'results.json')
    old = json.load(open(out)) if os.path.exists(out) else {}
    for r in results: old[r['name']] = r
    json.dump(old, open(out, 'w'), indent=1, sort_keys=True)
    caught = sum(1 for r in results if r['status'] == 'CAUGHT'); missed = [r['name'] for r in results if r['status'] == 'MISSED']
    print('mutants: %d run, %d caught, missed: %s' % (len(results), caught, missed))

t_start = time.time()
